#!/usr/bin/env python3
# gen_tl.py with the request-method harnesses (stub transport through an overlay of client.go) enabled
import os, subprocess, sys
here = os.path.dirname(os.path.abspath(__file__))
r = subprocess.run([sys.executable, f'{here}/gen_tl.py'] + sys.argv[1:], env=dict(os.environ, TL_CALLS='1'), capture_output=True, text=True)
sys.stdout.write(r.stdout)
sys.stderr.write(r.stderr)
sys.exit(r.returncode)
