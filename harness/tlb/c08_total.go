//go:build verif

package tlb

import (
	"bytes"

	"github.com/tonkeeper/tongo/boc"
	"github.com/tonkeeper/tongo/zzvrt"
)

// vArbTree builds an arbitrary small cell tree: a root with nbits symbolic bits and nrefs children,
// each child with cbits symbolic bits and a symbolic cell type 0..4 (ordinary, pruned, library,
// Merkle proof, Merkle update -- with ARBITRARY data, i.e. not necessarily well-formed) and mask.
func vArbTree(nbits, nrefs, cbits int) *boc.Cell {
	root := boc.NewCell()
	for i := 0; i < nbits; i++ {
		_ = root.WriteBit(zzvrt.NondetBool("root"))
	}
	for r := 0; r < nrefs; r++ {
		t := zzvrt.NondetByte("ctype")
		zzvrt.Assume(t <= 4)
		ch := boc.NewCellExotic(boc.CellType(t))
		for i := 0; i < cbits; i++ {
			_ = ch.WriteBit(zzvrt.NondetBool("child"))
		}
		_ = root.AddRef(ch)
	}
	return root
}

// Decoding an arbitrary small tree into the target type returns a value or an error: every Go
// run-time check on the way is a verification condition, loops are bounded by the unwinding bound.
func vDecodeTotal(nbits, nrefs, cbits int, dec func(c *boc.Cell) error) {
	c := vArbTree(nbits, nrefs, cbits)
	zzvrt.AllocLimit(nbits + 64)
	err := dec(c)
	zzvrt.Cover("accepted", err == nil)
	zzvrt.Cover("rejected", err != nil)
	zzvrt.ObserveBool("err", err != nil)
}

func VH_C08_tlb_MsgAddress(nbits, nrefs, cbits int) {
	vDecodeTotal(nbits, nrefs, cbits, func(c *boc.Cell) error { var x MsgAddress; return Unmarshal(c, &x) })
}
func VH_C08_tlb_CurrencyCollection(nbits, nrefs, cbits int) {
	vDecodeTotal(nbits, nrefs, cbits, func(c *boc.Cell) error { var x CurrencyCollection; return Unmarshal(c, &x) })
}
func VH_C08_tlb_StateInit(nbits, nrefs, cbits int) {
	vDecodeTotal(nbits, nrefs, cbits, func(c *boc.Cell) error { var x StateInit; return Unmarshal(c, &x) })
}
func VH_C08_tlb_Message(nbits, nrefs, cbits int) {
	vDecodeTotal(nbits, nrefs, cbits, func(c *boc.Cell) error { var x Message; return Unmarshal(c, &x) })
}
func VH_C08_tlb_HashmapE(nbits, nrefs, cbits int) {
	vDecodeTotal(nbits, nrefs, cbits, func(c *boc.Cell) error { var x HashmapE[Uint8, Uint8]; return Unmarshal(c, &x) })
}
func VH_C08_tlb_VmStack(nbits, nrefs, cbits int) {
	vDecodeTotal(nbits, nrefs, cbits, func(c *boc.Cell) error { var x VmStack; return Unmarshal(c, &x) })
}
func VH_C08_tlb_Text(nbits, nrefs, cbits int) {
	vDecodeTotal(nbits, nrefs, cbits, func(c *boc.Cell) error { var x Text; return Unmarshal(c, &x) })
}
func VH_C08_tlb_SnakeData(nbits, nrefs, cbits int) {
	vDecodeTotal(nbits, nrefs, cbits, func(c *boc.Cell) error { var x SnakeData; return Unmarshal(c, &x) })
}


// VmStack.UnmarshalTL sits on lite-server answers (runSmcMethod result: TL bytes holding a bag of
// cells): for every TL byte string whose payload of length L starts with the generic magic (other bytes
// symbolic) it returns a stack or an error, never a run-time panic.
func VH_C08_vmstack_tl(L int) {
	b := zzvrt.NondetBytes("boc", L)
	if L >= 4 {
		zzvrt.Assume(b[0] == 0xb5 && b[1] == 0xee && b[2] == 0x9c && b[3] == 0x72)
	}
	if L >= 6 {
		zzvrt.Assume(b[4]&7 == 1 && b[5] == 1)
	}
	wire := []byte{byte(L)}
	wire = append(wire, b...)
	for len(wire)%4 != 0 {
		wire = append(wire, 0)
	}
	var s VmStack
	err := s.UnmarshalTL(bytes.NewReader(wire))
	zzvrt.Cover("refused", err != nil)
	zzvrt.ObserveBool("err", err != nil)
}
