//go:build verif

package tlb

import (
	"github.com/tonkeeper/tongo/boc"
	"github.com/tonkeeper/tongo/zzvrt"
)

// number of bits of the length field of hml_long / hml_same for remaining key size m: ceil(log2(m+1))
func vLenBits(m int) int {
	n := 0
	for i := 0; i < 16; i++ {
		if (m>>uint(i))&1 == 1 {
			n = i + 1
		}
	}
	return n
}

// vRefLabel parses `HmLabel ~n m` from an ideal bit list (TON specification, Appendix D.3 of DESIGN.md):
//   hml_short$0 len:(Unary ~n) s:(n*Bit) | hml_long$10 n:(#<= m) s:(n*Bit) | hml_same$11 v:Bit n:(#<= m)
// Returns ok=false when the bits run out or n > m.  len(bits) is concrete.
func vRefLabel(bits []bool, m int) (n int, label []bool, used int, ok bool) {
	total := len(bits)
	label = make([]bool, m)
	get := func(p int) bool { // bit p, false beyond the list
		r := false
		for i := 0; i < total; i++ {
			r = zzvrt.Or(r, zzvrt.And(i == p, bits[i]))
		}
		return r
	}
	if total < 1 {
		return 0, label, 0, false
	}
	pos := 0
	if !bits[0] { // short
		cnt := 0
		done := false
		for i := 1; i < total; i++ {
			isOne := zzvrt.And(!done, bits[i])
			cnt = zzvrt.IteInt(isOne, cnt+1, cnt)
			done = zzvrt.Or(done, !bits[i])
		}
		if !done {
			return 0, label, 0, false
		}
		n = cnt
		pos = 1 + cnt + 1
	} else {
		if total < 2 {
			return 0, label, 0, false
		}
		lb := vLenBits(m)
		if !bits[1] { // long
			if 2+lb > total {
				return 0, label, 0, false
			}
			for j := 0; j < lb; j++ {
				n = n<<1 | zzvrt.IteInt(bits[2+j], 1, 0)
			}
			pos = 2 + lb
		} else { // same
			if 3+lb > total {
				return 0, label, 0, false
			}
			for j := 0; j < lb; j++ {
				n = n<<1 | zzvrt.IteInt(bits[3+j], 1, 0)
			}
			if n > m {
				return 0, label, 0, false
			}
			for j := 0; j < m; j++ {
				label[j] = zzvrt.And(j < n, bits[2])
			}
			return n, label, 3 + lb, true
		}
	}
	if n > m || pos+n > total {
		return 0, label, 0, false
	}
	for j := 0; j < m; j++ {
		label[j] = zzvrt.And(j < n, get(pos+j))
	}
	return n, label, pos + n, true
}

// loadLabel / loadLabelSize on ARBITRARY cell bits agree with the specification parser.
// Instance: remaining key size m <= 16, label form (0 short, 1 long, 2 same), total bits in the cell.
func VH_C05_loadLabel_vs_spec(m int, form int, total int) {
	bits := make([]bool, total)
	for i := range bits {
		bits[i] = zzvrt.NondetBool("bit")
	}
	if total >= 1 {
		zzvrt.Assume(bits[0] == (form != 0))
	}
	if total >= 2 && form != 0 {
		zzvrt.Assume(bits[1] == (form == 2))
	}
	c := boc.NewCell()
	c2 := boc.NewCell()
	for i := 0; i < total; i++ {
		_ = c.WriteBit(bits[i])
		_ = c2.WriteBit(bits[i])
	}
	n, label, used, ok := vRefLabel(bits, m)
	key := boc.NewBitString(m)
	ln, kp, err := loadLabel(m, c, &key)
	zzvrt.Assert("total", (err == nil) == ok)
	if err == nil {
		zzvrt.Assert("len", ln == n)
		zzvrt.Assert("consumed", c.BitsAvailableForRead() == total-used)
		zzvrt.Assert("key-len", kp.BitsAvailableForRead() == n)
		for j := 0; j < m; j++ {
			b, e := kp.ReadBit()
			zzvrt.Assert("key-bit", zzvrt.Implies(j < n, e == nil && b == label[j]))
		}
	}
	// the size-only variant agrees on the length whenever the full variant accepts
	ln2, err2 := loadLabelSize(m, c2)
	if err == nil {
		zzvrt.Assert("size-agrees", err2 == nil && ln2 == ln)
	}
	zzvrt.Cover("accepted-nonempty", err == nil && n >= 1)
	zzvrt.Cover("accepted-full", err == nil && n == m)
	zzvrt.Cover("rejected", err != nil)
	zzvrt.ObserveInt("ln", ln)
	zzvrt.ObserveBool("err", err != nil)
}

// encodeLabel followed by loadLabel returns the common prefix of the two keys, consumes what was
// written, and chooses hml_short below 8 bits and hml_long from 8 bits on.
func VH_C05_label_roundtrip(m int) {
	first := boc.NewBitString(m)
	last := boc.NewBitString(m)
	var fb, lb [64]bool
	for j := 0; j < m; j++ {
		fb[j] = zzvrt.NondetBool("f")
		lb[j] = zzvrt.NondetBool("l")
		_ = first.WriteBit(fb[j])
		_ = last.WriteBit(lb[j])
	}
	single := zzvrt.NondetBool("single") // one key: first == last (same object)
	// common prefix length
	cp := 0
	same := true
	for j := 0; j < m; j++ {
		same = zzvrt.And(same, fb[j] == lb[j])
		if same {
			cp = j + 1
		}
	}
	c := boc.NewCell()
	var label boc.BitString
	var err error
	if single {
		label, err = encodeLabel(c, &first, &first, m)
		cp = m
	} else {
		zzvrt.Assume(!same) // distinct keys
		label, err = encodeLabel(c, &first, &last, m)
	}
	zzvrt.Assert("encode-ok", err == nil)
	zzvrt.Assert("label-len", label.BitsAvailableForRead() == cp)
	written := c.BitsAvailableForRead()
	hd, _ := c.PickUint(1)
	zzvrt.Assert("form", (hd == 0) == (cp < 8))
	key := boc.NewBitString(m)
	ln, kp, err2 := loadLabel(m, c, &key)
	zzvrt.Assert("decode-ok", err2 == nil)
	zzvrt.Assert("len", ln == cp)
	zzvrt.Assert("all-consumed", c.BitsAvailableForRead() == 0 && written > 0)
	for j := 0; j < m; j++ {
		b, e := kp.ReadBit()
		zzvrt.Assert("bit", zzvrt.Implies(j < cp, e == nil && b == fb[j]))
	}
	zzvrt.Cover("cp7", cp == 7)
	zzvrt.Cover("cp8", cp == 8)
	zzvrt.Cover("cp0", cp == 0)
	zzvrt.ObserveInt("cp", cp)
}
