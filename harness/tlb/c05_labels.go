//go:build verif

package tlb

import (
	"github.com/tonkeeper/tongo/boc"
	"github.com/tonkeeper/tongo/zzvrt"
)

// number of bits of the length field of hml_long / hml_same for remaining key size m: ceil(log2(m+1))
func vLenBits(m int) int {
	n := 0
	for i := 0; i < 16; i++ {
		if (m>>uint(i))&1 == 1 {
			n = i + 1
		}
	}
	return n
}

// vRefLabel parses `HmLabel ~n m` from an ideal bit list (TON specification, Appendix D.3 of DESIGN.md):
//   hml_short$0 len:(Unary ~n) s:(n*Bit) | hml_long$10 n:(#<= m) s:(n*Bit) | hml_same$11 v:Bit n:(#<= m)
// Returns ok=false when the bits run out or n > m.
func vRefLabel(bits []bool, total int, m int) (n int, label [16]bool, used int, ok bool) {
	N := len(bits)
	pos := 0
	get := func(p int) bool { // bit p, false beyond the list
		r := false
		for i := 0; i < N; i++ {
			r = zzvrt.Or(r, zzvrt.And(i == p, bits[i]))
		}
		return r
	}
	if total < 1 {
		return 0, label, 0, false
	}
	if !get(0) { // short
		pos = 1
		cnt := 0
		done := false
		for i := 1; i < N; i++ {
			if i < total && !done {
				if bits[i] {
					cnt++
				} else {
					done = true
				}
			}
		}
		if !done {
			return 0, label, 0, false
		}
		n = cnt
		pos = 1 + cnt + 1
		if n > m || pos+n > total {
			return 0, label, 0, false
		}
		for j := 0; j < 16; j++ {
			label[j] = zzvrt.And(j < n, get(pos+j))
		}
		return n, label, pos + n, true
	}
	if total < 2 {
		return 0, label, 0, false
	}
	lb := vLenBits(m)
	if !get(1) { // long
		if 2+lb > total {
			return 0, label, 0, false
		}
		for j := 0; j < lb; j++ {
			n = n << 1
			if get(2 + j) {
				n |= 1
			}
		}
		pos = 2 + lb
		if n > m || pos+n > total {
			return 0, label, 0, false
		}
		for j := 0; j < 16; j++ {
			label[j] = zzvrt.And(j < n, get(pos+j))
		}
		return n, label, pos + n, true
	}
	// same
	if 3+lb > total {
		return 0, label, 0, false
	}
	v := get(2)
	for j := 0; j < lb; j++ {
		n = n << 1
		if get(3 + j) {
			n |= 1
		}
	}
	if n > m {
		return 0, label, 0, false
	}
	for j := 0; j < 16; j++ {
		label[j] = zzvrt.And(j < n, v)
	}
	return n, label, 3 + lb, true
}

// loadLabel / loadLabelSize on ARBITRARY cell bits agree with the specification parser
// (all three label forms), for remaining key size m <= 16 and N symbolic bits.
func VH_C05_loadLabel_vs_spec(m int, N int) {
	bits := make([]bool, N)
	for i := range bits {
		bits[i] = zzvrt.NondetBool("bit")
	}
	total := zzvrt.NondetInt("total")
	zzvrt.Assume(0 <= total && total <= N)
	c := boc.NewCell()
	for i := 0; i < N; i++ {
		if i < total {
			_ = c.WriteBit(bits[i])
		}
	}
	c2 := boc.NewCell()
	for i := 0; i < N; i++ {
		if i < total {
			_ = c2.WriteBit(bits[i])
		}
	}
	n, label, used, ok := vRefLabel(bits, total, m)
	key := boc.NewBitString(m)
	ln, kp, err := loadLabel(m, c, &key)
	zzvrt.Assert("total", (err == nil) == ok)
	if err == nil {
		zzvrt.Assert("len", ln == n)
		zzvrt.Assert("consumed", c.BitsAvailableForRead() == total-used)
		zzvrt.Assert("key-len", kp.BitsAvailableForRead() == n)
		for j := 0; j < 16; j++ {
			if j < m {
				b, e := kp.ReadBit()
				zzvrt.Assert("key-bit", zzvrt.Implies(j < n, e == nil && b == label[j]))
			}
		}
	}
	// the size-only variant agrees on the length whenever the full variant accepts
	ln2, err2 := loadLabelSize(m, c2)
	if err == nil {
		zzvrt.Assert("size-agrees", err2 == nil && ln2 == ln)
	}
	zzvrt.Cover("short", err == nil && !bits[0] && n == 3)
	zzvrt.Cover("long", err == nil && bits[0] && !bits[1] && n >= 1)
	zzvrt.Cover("same-ones", err == nil && bits[0] && bits[1] && bits[2] && n == m)
	zzvrt.Cover("rejected", err != nil)
	zzvrt.ObserveInt("ln", ln)
	zzvrt.ObserveBool("err", err != nil)
}

// encodeLabel followed by loadLabel returns the common prefix of the two keys, consumes what was
// written, and chooses hml_short below 8 bits and hml_long from 8 bits on.
func VH_C05_label_roundtrip(m int) {
	first := boc.NewBitString(m)
	last := boc.NewBitString(m)
	var fb, lb [16]bool
	for j := 0; j < m; j++ {
		fb[j] = zzvrt.NondetBool("f")
		lb[j] = zzvrt.NondetBool("l")
		_ = first.WriteBit(fb[j])
		_ = last.WriteBit(lb[j])
	}
	single := zzvrt.NondetBool("single") // one key: first == last (same object)
	// common prefix length
	cp := 0
	same := true
	for j := 0; j < m; j++ {
		same = zzvrt.And(same, fb[j] == lb[j])
		if same {
			cp = j + 1
		}
	}
	c := boc.NewCell()
	var label boc.BitString
	var err error
	if single {
		label, err = encodeLabel(c, &first, &first, m)
		cp = m
	} else {
		zzvrt.Assume(!same) // distinct keys
		label, err = encodeLabel(c, &first, &last, m)
	}
	zzvrt.Assert("encode-ok", err == nil)
	zzvrt.Assert("label-len", label.BitsAvailableForRead() == cp)
	written := c.BitsAvailableForRead()
	hd, _ := c.PickUint(1)
	zzvrt.Assert("form", (hd == 0) == (cp < 8))
	key := boc.NewBitString(m)
	ln, kp, err2 := loadLabel(m, c, &key)
	zzvrt.Assert("decode-ok", err2 == nil)
	zzvrt.Assert("len", ln == cp)
	zzvrt.Assert("all-consumed", c.BitsAvailableForRead() == 0 && written > 0)
	for j := 0; j < m; j++ {
		b, e := kp.ReadBit()
		zzvrt.Assert("bit", zzvrt.Implies(j < cp, e == nil && b == fb[j]))
	}
	zzvrt.Cover("cp7", cp == 7)
	zzvrt.Cover("cp8", cp == 8)
	zzvrt.Cover("cp0", cp == 0)
	zzvrt.ObserveInt("cp", cp)
}
