//go:build verif

package tlb

import (
	"github.com/tonkeeper/tongo/boc"
	"github.com/tonkeeper/tongo/zzvrt"
)

// vCellBits returns the data bits of a cell as 0/1 values (through the raw buffer, not the readers)
func vCellBit(c *boc.Cell, p int) uint64 {
	bs := c.RawBitString()
	buf := bs.Buffer()
	return uint64((buf[p/8] >> (7 - uint(p%8))) & 1)
}

// vSameCell: same number of bits, same bits, same number of refs (one level)
func vSameBits(a, b *boc.Cell) bool {
	if a.BitSize() != b.BitSize() || a.RefsSize() != b.RefsSize() {
		return false
	}
	ok := true
	for p := 0; p < a.BitSize(); p++ {
		ok = zzvrt.And(ok, vCellBit(a, p) == vCellBit(b, p))
	}
	return ok
}

// ---- reflection-driven structs --------------------------------------------------------------

// TickTock: two flag bits in declaration order
func VH_C03_TickTock() {
	x := TickTock{Tick: zzvrt.NondetBool("tick"), Tock: zzvrt.NondetBool("tock")}
	c := boc.NewCell()
	err := Marshal(c, x)
	zzvrt.Assert("encode-ok", err == nil)
	zzvrt.Assert("spec-size", c.BitSize() == 2 && c.RefsSize() == 0)
	zzvrt.Assert("spec-bits", (vCellBit(c, 0) == 1) == x.Tick && (vCellBit(c, 1) == 1) == x.Tock)
	var y TickTock
	err = Unmarshal(c, &y)
	zzvrt.Assert("decode-ok", err == nil)
	zzvrt.Assert("roundtrip", y == x)
	zzvrt.Assert("consumed", c.BitsAvailableForRead() == 0)
	zzvrt.Cover("tick-only", x.Tick && !x.Tock)
	zzvrt.ObserveBool("tick", y.Tick)
}

// ShardIdent: shardident$00 shard_pfx_bits:(#<= 60) workchain_id:int32 shard_prefix:uint64
func VH_C03_ShardIdent() {
	x := ShardIdent{ShardPfxBits: Uint6(zzvrt.NondetByte("pfx")), WorkchainID: zzvrt.NondetI32("wc"), ShardPrefix: zzvrt.NondetU64("prefix")}
	zzvrt.Assume(x.ShardPfxBits < 64)
	c := boc.NewCell()
	err := Marshal(c, x)
	zzvrt.Assert("encode-ok", err == nil)
	zzvrt.Assert("spec-size", c.BitSize() == 2+6+32+64)
	// specification encoder on an ideal bit list
	var spec [104]uint64
	p := 2 // tag $00
	for i := 0; i < 6; i++ {
		spec[p] = uint64(x.ShardPfxBits>>uint(5-i)) & 1
		p++
	}
	for i := 0; i < 32; i++ {
		spec[p] = uint64(uint32(x.WorkchainID)>>uint(31-i)) & 1
		p++
	}
	for i := 0; i < 64; i++ {
		spec[p] = (x.ShardPrefix >> uint(63-i)) & 1
		p++
	}
	for i := 0; i < 104; i++ {
		zzvrt.Assert("spec-bits", vCellBit(c, i) == spec[i])
	}
	var y ShardIdent
	err = Unmarshal(c, &y)
	zzvrt.Assert("decode-ok", err == nil)
	zzvrt.Assert("roundtrip", y.ShardPfxBits == x.ShardPfxBits && y.WorkchainID == x.WorkchainID && y.ShardPrefix == x.ShardPrefix)
	zzvrt.Assert("consumed", c.BitsAvailableForRead() == 0)
	zzvrt.Cover("negative-wc", x.WorkchainID < 0)
	zzvrt.ObserveU64("prefix", y.ShardPrefix)
}

// Maybe / Either / Ref combinators over integer leaves
type vCombo struct {
	A Maybe[Uint7]
	B Either[Uint3, Int9]
	C Ref[Uint32]
	D EitherRef[Uint5]
	E *Uint4 `tlb:"maybe"`
	F *Uint8 `tlb:"maybe^"`
}

func VH_C03_combinators() {
	var x vCombo
	x.A.Exists = zzvrt.NondetBool("a-exists")
	if x.A.Exists {
		x.A.Value = Uint7(zzvrt.NondetByte("a") & 0x7f)
	}
	x.B.IsRight = zzvrt.NondetBool("b-right")
	if x.B.IsRight {
		v := zzvrt.NondetI32("b")
		zzvrt.Assume(v >= -256 && v < 256)
		x.B.Right = Int9(v)
	} else {
		x.B.Left = Uint3(zzvrt.NondetByte("b") & 7)
	}
	x.C.Value = Uint32(zzvrt.NondetU32("c"))
	x.D.IsRight = zzvrt.NondetBool("d-right")
	x.D.Value = Uint5(zzvrt.NondetByte("d") & 31)
	hasE := zzvrt.NondetBool("e-exists")
	if hasE {
		e := Uint4(zzvrt.NondetByte("e") & 15)
		x.E = &e
	}
	hasF := zzvrt.NondetBool("f-exists")
	if hasF {
		f := Uint8(zzvrt.NondetByte("f"))
		x.F = &f
	}
	c := boc.NewCell()
	err := Marshal(c, x)
	zzvrt.Assert("encode-ok", err == nil)
	// specification: bit counts and reference counts
	bits := 1 + 1 + 0 + 1 + 1 + 1
	refs := 1
	if x.A.Exists {
		bits += 7
	}
	if x.B.IsRight {
		bits += 9
	} else {
		bits += 3
	}
	if x.D.IsRight {
		refs++
	} else {
		bits += 5
	}
	if hasE {
		bits += 4
	}
	if hasF {
		refs++
	}
	zzvrt.Assert("spec-size", c.BitSize() == bits && c.RefsSize() == refs)
	zzvrt.Assert("spec-maybe-flag", (vCellBit(c, 0) == 1) == x.A.Exists)
	var y vCombo
	err = Unmarshal(c, &y)
	zzvrt.Assert("decode-ok", err == nil)
	zzvrt.Assert("roundtrip-A", y.A == x.A)
	zzvrt.Assert("roundtrip-B", y.B == x.B)
	zzvrt.Assert("roundtrip-C", y.C == x.C)
	zzvrt.Assert("roundtrip-D", y.D == x.D)
	zzvrt.Assert("roundtrip-E", (y.E != nil) == hasE && (!hasE || *y.E == *x.E))
	zzvrt.Assert("roundtrip-F", (y.F != nil) == hasF && (!hasF || *y.F == *x.F))
	zzvrt.Assert("consumed", c.BitsAvailableForRead() == 0 && c.RefsAvailableForRead() == 0)
	c2 := boc.NewCell()
	err = Marshal(c2, y)
	zzvrt.Assert("re-encode-ok", err == nil)
	c.ResetCounters()
	zzvrt.Assert("re-encode-same", vSameBits(c, c2))
	zzvrt.Cover("all-present", x.A.Exists && x.B.IsRight && x.D.IsRight && hasE && hasF)
	zzvrt.Cover("all-absent", !x.A.Exists && !x.B.IsRight && !x.D.IsRight && !hasE && !hasF)
	zzvrt.ObserveInt("bits", c.BitSize())
}

// plain Go kinds through the reflection codec: uintN/intN big-endian of the Go width, bool one bit,
// byte arrays and slices verbatim
type vPlain struct {
	A uint8
	B uint16
	C uint32
	D uint64
	E int8
	F int16
	G int32
	H int64
	I bool
	J [3]byte
}

func VH_C03_plain_kinds() {
	x := vPlain{A: zzvrt.NondetByte("a"), B: zzvrt.NondetU16("b"), C: zzvrt.NondetU32("c"), D: zzvrt.NondetU64("d"),
		E: int8(zzvrt.NondetByte("e")), F: int16(zzvrt.NondetU16("f")), G: zzvrt.NondetI32("g"), H: zzvrt.NondetI64("h"), I: zzvrt.NondetBool("i")}
	for k := 0; k < 3; k++ {
		x.J[k] = zzvrt.NondetByte("j")
	}
	spec := &vSpecBits{}
	spec.uint(uint64(x.A), 8)
	spec.uint(uint64(x.B), 16)
	spec.uint(uint64(x.C), 32)
	spec.uint(x.D, 64)
	spec.uint(uint64(uint8(x.E)), 8)
	spec.uint(uint64(uint16(x.F)), 16)
	spec.uint(uint64(uint32(x.G)), 32)
	spec.uint(uint64(x.H), 64)
	spec.bit(x.I)
	for k := 0; k < 3; k++ {
		spec.uint(uint64(x.J[k]), 8)
	}
	c := boc.NewCell()
	err := Marshal(c, x)
	zzvrt.Assert("encode-ok", err == nil)
	vAssertCellIs(c, spec, "spec")
	var y vPlain
	err = Unmarshal(c, &y)
	zzvrt.Assert("decode-ok", err == nil)
	zzvrt.Assert("roundtrip", y == x)
	zzvrt.Assert("consumed", c.BitsAvailableForRead() == 0)
	zzvrt.Cover("high-bits", x.B >= 0x8000 && x.F < 0 && x.H < 0)
	zzvrt.ObserveU64("d", y.D)
}

// Bytes / Text / SnakeData (tail#_ b:(bits bn) / cons#_ b:(bits bn) next:^SnakeData): n symbolic bytes
// written into a cell that already holds `pre` bits.  Layout: the root takes the first
// min(1023-pre, 8n) data bits, the rest goes to a chain of references of at most 1023 bits each;
// decoding (after skipping the pre bits) gives back exactly the bytes; Text does the same for ASCII.
func VH_C03_bytes_snake(n int, pre int) {
	data := zzvrt.NondetBytes("data", n)
	c := boc.NewCell()
	_ = c.WriteUint(0, pre)
	err := Marshal(c, Bytes(data))
	zzvrt.Assert("encode-ok", err == nil)
	avail := 1023 - pre
	first := 8 * n
	if first > avail {
		first = avail
	}
	zzvrt.Assert("root-bit-count", c.BitSize() == pre+first)
	bit := func(i int) uint64 { return uint64(data[i/8]>>(7-uint(i%8))) & 1 }
	ok := true
	for i := 0; i < first && pre+i < c.BitSize(); i++ {
		ok = zzvrt.And(ok, vCellBit(c, pre+i) == bit(i))
	}
	zzvrt.Assert("root-bits", ok)
	rest := 8*n - first
	cur := c
	off := first
	for rest > 0 {
		zzvrt.Assert("continuation-in-one-reference", cur.RefsSize() == 1)
		if cur.RefsSize() != 1 {
			return
		}
		cur = cur.Refs()[0]
		take := rest
		if take > 1023 {
			take = 1023
		}
		zzvrt.Assert("continuation-bit-count", cur.BitSize() == take)
		ok = true
		for i := 0; i < take && i < cur.BitSize(); i++ {
			ok = zzvrt.And(ok, vCellBit(cur, i) == bit(off+i))
		}
		zzvrt.Assert("continuation-bits", ok)
		off += take
		rest -= take
	}
	zzvrt.Assert("chain-ends", cur.RefsSize() == 0)
	c.ResetCounters()
	_ = c.Skip(pre)
	var got Bytes
	err = Unmarshal(c, &got)
	zzvrt.Assert("decode-ok", err == nil)
	same := len(got) == n
	for i := 0; i < n && i < len(got); i++ {
		same = zzvrt.And(same, got[i] == data[i])
	}
	zzvrt.Assert("roundtrip", same)
	zzvrt.Cover("split", 8*n > avail)
	zzvrt.ObserveInt("len", len(got))
}

// VM stacks (vm_stack#_ depth:(## 24) stack:(VmStackList depth); vm_stk_cons rest:^(VmStackList n)
// tos:VmStackValue): the API's list convention is "arguments listed top-first, results bottom-first".
// Marshal of {a, b, c} puts a in the outermost cell (top of stack) with b, c below it in the chain of
// `rest` references; Unmarshal of that cell lists the entries bottom-first: {c, b, a}.  Entries are
// tiny ints with symbolic values; the layout of each cell is compared with the schema.
func VH_C03_vmstack(n int) {
	var s VmStack
	vals := make([]int64, n)
	for i := 0; i < n; i++ {
		vals[i] = zzvrt.NondetI64("v")
		s = append(s, VmStackValue{SumType: "VmStkTinyInt", VmStkTinyInt: vals[i]})
	}
	c := boc.NewCell()
	zzvrt.Assert("encode-ok", Marshal(c, s) == nil)
	cur := c
	for i := 0; i < n; i++ {
		spec := &vSpecBits{}
		if i == 0 {
			spec.uint(uint64(n), 24)
		}
		spec.uint(1, 8) // vm_stk_tinyint#01
		spec.uint(uint64(vals[i]), 64)
		vAssertCellIs(cur, spec, "cons-cell")
		zzvrt.Assert("rest-reference", cur.RefsSize() == 1)
		if cur.RefsSize() != 1 {
			return
		}
		cur = cur.Refs()[0]
	}
	if n == 0 {
		spec := &vSpecBits{}
		spec.uint(0, 24)
		vAssertCellIs(c, spec, "empty-stack")
	} else {
		zzvrt.Assert("nil-cell-is-empty", cur.BitSize() == 0 && cur.RefsSize() == 0)
	}
	var got VmStack
	c.ResetCounters()
	zzvrt.Assert("decode-ok", Unmarshal(c, &got) == nil)
	zzvrt.Assert("same-depth", len(got) == n)
	for i := 0; i < n && i < len(got); i++ {
		zzvrt.Assert("results-bottom-first", got[i].SumType == "VmStkTinyInt" && got[i].VmStkTinyInt == vals[n-1-i])
	}
	zzvrt.Cover("reached", true)
	zzvrt.ObserveInt("depth", len(got))
}

// vm_stk_slice: _ cell:^Cell st_bits:(## 10) end_bits:(## 10) { st_bits <= end_bits } st_ref:(#<= 4)
// end_ref:(#<= 4) { st_ref <= end_ref } = VmCellSlice.  A slice over a cell with nrefs references and 16
// data bits, every valid window: the encoding is one reference to the cell plus 10+10+3+3 bits, and
// decoding gives back the same window (bits and references) over the same cell.
func VH_C03_vmcellslice(nrefs int) {
	cell := boc.NewCell()
	_ = cell.WriteUint(uint64(zzvrt.NondetU16("data")), 16)
	for i := 0; i < nrefs; i++ {
		ch := boc.NewCell()
		_ = ch.WriteUint(uint64(i), 8)
		_ = cell.AddRef(ch)
	}
	stBits, endBits := zzvrt.NondetInt("st-bits"), zzvrt.NondetInt("end-bits")
	stRef, endRef := zzvrt.NondetInt("st-ref"), zzvrt.NondetInt("end-ref")
	zzvrt.Assume(stBits >= 0)
	zzvrt.Assume(stBits <= endBits)
	zzvrt.Assume(endBits <= 16)
	zzvrt.Assume(stRef >= 0)
	zzvrt.Assume(stRef <= endRef)
	zzvrt.Assume(endRef <= nrefs)
	s := VmCellSlice{cell: cell, stBits: stBits, endBits: endBits, stRef: stRef, endRef: endRef}
	c := boc.NewCell()
	zzvrt.Assert("encode-ok", s.MarshalTLB(c, &Encoder{}) == nil)
	spec := &vSpecBits{}
	spec.uint(uint64(stBits), 10)
	spec.uint(uint64(endBits), 10)
	spec.uint(uint64(stRef), 3)
	spec.uint(uint64(endRef), 3)
	vAssertCellIs(c, spec, "slice-record")
	zzvrt.Assert("one-reference-to-the-cell", c.RefsSize() == 1 && c.Refs()[0] == cell)
	var got VmCellSlice
	c.ResetCounters()
	zzvrt.Assert("decode-ok", got.UnmarshalTLB(c, &Decoder{}) == nil)
	zzvrt.Assert("same-bit-window", got.stBits == stBits && got.endBits == endBits)
	zzvrt.Assert("same-ref-window", got.stRef == stRef && got.endRef == endRef)
	zzvrt.Assert("same-cell", got.cell == cell)
	zzvrt.Cover("window-with-references", endRef > stRef)
	zzvrt.ObserveInt("end-ref", got.endRef)
}
