//go:build verif

package tlb

import (
	"github.com/tonkeeper/tongo/boc"
	"github.com/tonkeeper/tongo/zzvrt"
)

// specification of nanograms$_ amount:(VarUInteger 16): 4-bit byte length (minimal) + big-endian bytes
func vSpecGrams(v uint64) (bits [68]uint64, n int) {
	nb := 0
	for i := 0; i < 8; i++ {
		if (v>>(8*uint(i)))&0xff != 0 {
			nb = i + 1
		}
	}
	for i := 0; i < 4; i++ {
		bits[i] = uint64(nb>>uint(3-i)) & 1
	}
	for i := 0; i < 64; i++ {
		if i < 8*nb {
			bits[4+i] = (v >> uint(8*nb-1-i)) & 1
		}
	}
	return bits, 4 + 8*nb
}

// Grams over all of uint64: bit-exact with the schema, round trip, exact consumption
func VH_C03_Grams() {
	v := zzvrt.NondetU64("v")
	c := boc.NewCell()
	err := Marshal(c, Grams(v))
	zzvrt.Assert("encode-ok", err == nil)
	spec, n := vSpecGrams(v)
	zzvrt.Assert("spec-size", c.BitSize() == n)
	for i := 0; i < 68; i++ {
		if i < c.BitSize() {
			zzvrt.Assert("spec-bits", vCellBit(c, i) == spec[i])
		}
	}
	_ = c.WriteUint(zzvrt.NondetU64("suffix"), 3)
	var g Grams
	err = Unmarshal(c, &g)
	zzvrt.Assert("decode-ok", err == nil)
	zzvrt.Assert("roundtrip", uint64(g) == v)
	zzvrt.Assert("consumed", c.BitsAvailableForRead() == 3)
	zzvrt.Cover("above-int64", v >= 1<<63)
	zzvrt.Cover("zero", v == 0)
	zzvrt.ObserveU64("g", uint64(g))
}

// SignedCoins over all of int64: sign bit + VarUInteger 16 of the magnitude
func VH_C03_SignedCoins() {
	v := zzvrt.NondetI64("v")
	c := boc.NewCell()
	err := Marshal(c, SignedCoins(v))
	zzvrt.Assert("encode-ok", err == nil)
	mag := uint64(v)
	if v < 0 {
		mag = -uint64(v)
	}
	spec, n := vSpecGrams(mag)
	zzvrt.Assert("spec-size", c.BitSize() == 1+n)
	zzvrt.Assert("spec-sign", (vCellBit(c, 0) == 1) == (v < 0))
	for i := 0; i < 68; i++ {
		if 1+i < c.BitSize() {
			zzvrt.Assert("spec-bits", vCellBit(c, 1+i) == spec[i])
		}
	}
	var g SignedCoins
	err = Unmarshal(c, &g)
	zzvrt.Assert("decode-ok", err == nil)
	zzvrt.Assert("roundtrip", int64(g) == v)
	zzvrt.Assert("consumed", c.BitsAvailableForRead() == 0)
	zzvrt.Cover("negative", v < 0)
	zzvrt.Cover("min", v == -1<<63)
	zzvrt.ObserveU64("g", uint64(g))
}
