//go:build verif

package tlb

import (
	"github.com/tonkeeper/tongo/boc"
	"github.com/tonkeeper/tongo/zzvrt"
)

// vIntCodec checks one generated fixed-width integer type over its ENTIRE domain (the values an
// n-bit TL-B field can express), written after `pre` arbitrary bits and followed by 5 arbitrary bits:
//   C04: the field is the n-bit big-endian two's-complement (or unsigned) representation of v,
//        neighbouring bits are untouched;
//   C03: decoding returns v, consumes exactly n bits, and re-encoding gives the same bits.
func vIntCodec(n int, signed bool, pre int, enc func(*boc.Cell, uint64) error, dec func(*boc.Cell) (uint64, error), conv func(uint64) uint64) {
	c := boc.NewCell()
	var prefix [16]bool
	for i := 0; i < pre; i++ {
		prefix[i] = zzvrt.NondetBool("pre")
		_ = c.WriteBit(prefix[i])
	}
	raw := zzvrt.NondetU64("v")
	// domain: what the n-bit field can express, as the Go value of the type (sign-extended for IntN)
	var v uint64
	if n == 64 {
		v = raw
	} else if signed {
		zzvrt.Assume(int64(raw) >= -(int64(1)<<uint(n-1)) && int64(raw) < int64(1)<<uint(n-1))
		v = raw
	} else {
		zzvrt.Assume(raw < uint64(1)<<uint(n))
		v = raw
	}
	v = conv(v) // through the Go representation type
	zzvrt.Assert("representable", v == raw)
	err := enc(c, v)
	zzvrt.Assert("encode-ok", err == nil)
	zzvrt.Assert("encode-size", c.BitsAvailableForRead() == pre+n)
	suffix := zzvrt.NondetU64("suffix")
	_ = c.WriteUint(suffix, 5)
	bs := c.RawBitString()
	buf := bs.Buffer()
	bit := func(p int) uint64 { return uint64((buf[p/8] >> (7 - uint(p%8))) & 1) }
	for i := 0; i < pre; i++ {
		zzvrt.Assert("prefix-untouched", (bit(i) == 1) == prefix[i])
	}
	for i := 0; i < n; i++ {
		zzvrt.Assert("bit-exact", bit(pre+i) == (v>>uint(n-1-i))&1)
	}
	_ = c.Skip(pre)
	got, err := dec(c)
	zzvrt.Assert("decode-ok", err == nil)
	zzvrt.Assert("roundtrip", got == v)
	zzvrt.Assert("consumed", c.BitsAvailableForRead() == 5)
	c2 := boc.NewCell()
	err = enc(c2, got)
	zzvrt.Assert("re-encode-ok", err == nil)
	b2 := c2.RawBitString()
	buf2 := b2.Buffer()
	for i := 0; i < n; i++ {
		zzvrt.Assert("re-encode-same", uint64((buf2[i/8]>>(7-uint(i%8)))&1) == bit(pre+i))
	}
	if signed {
		zzvrt.Cover("negative", int64(v) < 0)
	} else if n < 64 {
		zzvrt.Cover("max", v == uint64(1)<<uint(n)-1)
	}
	zzvrt.ObserveU64("got", got)
}
