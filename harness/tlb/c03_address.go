//go:build verif

package tlb

import (
	"github.com/tonkeeper/tongo/boc"
	"github.com/tonkeeper/tongo/zzvrt"
)

// vSpecBits is an ideal bit list used by the specification encoders (no code shared with boc.BitString)
type vSpecBits struct {
	b []uint64
}

func (s *vSpecBits) uint(v uint64, n int) {
	for i := 0; i < n; i++ {
		s.b = append(s.b, (v>>uint(n-1-i))&1)
	}
}
func (s *vSpecBits) bit(v bool) {
	if v {
		s.b = append(s.b, 1)
	} else {
		s.b = append(s.b, 0)
	}
}

func vAssertCellIs(c *boc.Cell, s *vSpecBits, label string) {
	zzvrt.Assert(label+"-size", c.BitSize() == len(s.b))
	for i := 0; i < len(s.b); i++ {
		if i < c.BitSize() {
			zzvrt.Assert(label+"-bits", vCellBit(c, i) == s.b[i])
		}
	}
}

// vArbAnycast: depth 0 means "no anycast"; otherwise anycast_info$_ depth:(#<= 30) rewrite_pfx:(bits depth)
func vArbAnycast(depth int, s *vSpecBits) Maybe[Anycast] {
	var m Maybe[Anycast]
	if depth == 0 {
		s.bit(false)
		return m
	}
	m.Exists = true
	m.Value.Depth = uint32(depth)
	pfx := zzvrt.NondetU32("pfx")
	zzvrt.Assume(uint64(pfx) < uint64(1)<<uint(depth))
	m.Value.RewritePfx = pfx
	s.bit(true)
	s.uint(uint64(depth), 5)
	s.uint(uint64(pfx), depth)
	return m
}

// MsgAddress, all four constructors, against the block.tlb layout:
//   addr_none$00 | addr_extern$01 len:(## 9) external_address:(bits len)
//   addr_std$10 anycast:(Maybe Anycast) workchain_id:int8 address:bits256
//   addr_var$11 anycast:(Maybe Anycast) addr_len:(## 9) workchain_id:int32 address:(bits addr_len)
// kind: constructor; L: bit length for extern/var; depth: anycast depth (0 = none)
func VH_C03_MsgAddress(kind int, L int, depth int) {
	var a MsgAddress
	spec := &vSpecBits{}
	var extBits []bool
	switch kind {
	case 0:
		a.SumType = "AddrNone"
		spec.uint(0, 2)
	case 1:
		a.SumType = "AddrExtern"
		bs := boc.NewBitString(L)
		spec.uint(1, 2)
		spec.uint(uint64(L), 9)
		for i := 0; i < L; i++ {
			b := zzvrt.NondetBool("ext")
			extBits = append(extBits, b)
			_ = bs.WriteBit(b)
			spec.bit(b)
		}
		a.AddrExtern = &bs
	case 2:
		a.SumType = "AddrStd"
		spec.uint(2, 2)
		a.AddrStd.Anycast = vArbAnycast(depth, spec)
		a.AddrStd.WorkchainId = int8(zzvrt.NondetByte("wc"))
		spec.uint(uint64(uint8(a.AddrStd.WorkchainId)), 8)
		for i := 0; i < 32; i++ {
			a.AddrStd.Address[i] = zzvrt.NondetByte("addr")
			spec.uint(uint64(a.AddrStd.Address[i]), 8)
		}
	case 3:
		a.SumType = "AddrVar"
		spec.uint(3, 2)
		any := vArbAnycast(depth, spec)
		wc := zzvrt.NondetI32("wc")
		bs := boc.NewBitString(L)
		spec.uint(uint64(L), 9)
		spec.uint(uint64(uint32(wc)), 32)
		for i := 0; i < L; i++ {
			b := zzvrt.NondetBool("var")
			extBits = append(extBits, b)
			_ = bs.WriteBit(b)
			spec.bit(b)
		}
		a.AddrVar = &struct {
			Anycast     Maybe[Anycast]
			AddrLen     Uint9
			WorkchainId int32
			Address     boc.BitString
		}{Anycast: any, AddrLen: Uint9(L), WorkchainId: wc, Address: bs}
	}
	c := boc.NewCell()
	err := Marshal(c, a)
	zzvrt.Assert("encode-ok", err == nil)
	vAssertCellIs(c, spec, "spec")
	_ = c.WriteUint(zzvrt.NondetU64("suffix"), 3)
	var b MsgAddress
	err = Unmarshal(c, &b)
	zzvrt.Assert("decode-ok", err == nil)
	zzvrt.Assert("consumed", c.BitsAvailableForRead() == 3)
	zzvrt.Assert("same-constructor", b.SumType == a.SumType)
	switch kind {
	case 1:
		zzvrt.Assert("extern", b.AddrExtern != nil && b.AddrExtern.BitsAvailableForRead() == L)
		if b.AddrExtern != nil {
			for i := 0; i < L; i++ {
				bit, e := b.AddrExtern.ReadBit()
				zzvrt.Assert("extern-bits", e == nil && bit == extBits[i])
			}
		}
	case 2:
		zzvrt.Assert("std", b.AddrStd == a.AddrStd)
	case 3:
		zzvrt.Assert("var", b.AddrVar != nil)
		if b.AddrVar != nil {
			zzvrt.Assert("var-fields", b.AddrVar.Anycast == a.AddrVar.Anycast && b.AddrVar.AddrLen == a.AddrVar.AddrLen && b.AddrVar.WorkchainId == a.AddrVar.WorkchainId)
			zzvrt.Assert("var-len", b.AddrVar.Address.BitsAvailableForRead() == L)
			for i := 0; i < L; i++ {
				bit, e := b.AddrVar.Address.ReadBit()
				zzvrt.Assert("var-bits", e == nil && bit == extBits[i])
			}
		}
	}
	// re-encoding gives the same cell
	c2 := boc.NewCell()
	err = Marshal(c2, b)
	zzvrt.Assert("re-encode-ok", err == nil)
	vAssertCellIs(c2, spec, "re-encode")
	zzvrt.Cover("ok", err == nil)
	zzvrt.ObserveInt("bits", c2.BitSize())
}
