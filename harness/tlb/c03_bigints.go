//go:build verif

package tlb

import (
	"math/big"

	"github.com/tonkeeper/tongo/boc"
	"github.com/tonkeeper/tongo/zzvrt"
)

// vBigCodec: fixed-width big integer types (UintN / IntN with N in {128,256,257}) over their entire
// domain, after `pre` arbitrary bits: bit-exact big-endian (two's complement) layout, round trip,
// exact consumption.
func vBigCodec(n int, signed bool, pre int, enc func(*boc.Cell, *big.Int) error, dec func(*boc.Cell) (*big.Int, error)) {
	c := boc.NewCell()
	for i := 0; i < pre; i++ {
		_ = c.WriteBit(zzvrt.NondetBool("pre"))
	}
	nb := (n + 7) / 8
	raw := zzvrt.NondetBytes("v", nb)
	v := new(big.Int).SetBytes(raw)
	neg := false
	if signed {
		neg = zzvrt.NondetBool("neg")
		lim := new(big.Int).Lsh(big.NewInt(1), uint(n-1))
		if neg {
			zzvrt.Assume(v.Sign() > 0 && v.Cmp(lim) <= 0)
			v.Neg(v)
		} else {
			zzvrt.Assume(v.Cmp(lim) < 0)
		}
	} else {
		zzvrt.Assume(v.BitLen() <= n)
	}
	err := enc(c, v)
	zzvrt.Assert("encode-ok", err == nil)
	zzvrt.Assert("encode-size", c.BitSize() == pre+n)
	// specification: n-bit two's complement, most significant bit first
	tc := new(big.Int).Set(v)
	if neg {
		tc.Add(tc, new(big.Int).Lsh(big.NewInt(1), uint(n)))
	}
	bs := c.RawBitString()
	buf := bs.Buffer()
	for i := 0; i < n; i++ {
		p := pre + i
		zzvrt.Assert("bit-exact", uint((buf[p/8]>>(7-uint(p%8)))&1) == tc.Bit(n-1-i))
	}
	_ = c.WriteUint(zzvrt.NondetU64("suffix"), 5)
	_ = c.Skip(pre)
	got, err := dec(c)
	zzvrt.Assert("decode-ok", err == nil)
	if err == nil {
		zzvrt.Assert("roundtrip", got.Cmp(v) == 0)
	}
	zzvrt.Assert("consumed", c.BitsAvailableForRead() == 5)
	if signed {
		zzvrt.Cover("negative", neg)
		zzvrt.Cover("minus-one", neg && v.Cmp(big.NewInt(-1)) == 0)
	}
	zzvrt.Cover("top-bits-set", !neg && v.BitLen() >= n-1)
}

// vVarUintCodec: VarUInteger N = len:(#< N) value:(uint (len*8)) with the minimal byte length.
// Instance: the byte length of the value.
func vVarUintCodec(N int, nbytes int, pre int, enc func(*boc.Cell, *big.Int) error, dec func(*boc.Cell) (*big.Int, error)) {
	c := boc.NewCell()
	for i := 0; i < pre; i++ {
		_ = c.WriteBit(zzvrt.NondetBool("pre"))
	}
	raw := zzvrt.NondetBytes("v", nbytes)
	if nbytes > 0 {
		zzvrt.Assume(raw[0] != 0) // exactly nbytes significant bytes
	}
	v := new(big.Int).SetBytes(raw)
	lenBits := 0
	for i := 0; i < 8; i++ {
		if ((N-1)>>uint(i))&1 == 1 {
			lenBits = i + 1
		}
	}
	err := enc(c, v)
	zzvrt.Assert("encode-ok", err == nil)
	zzvrt.Assert("encode-size", c.BitSize() == pre+lenBits+8*nbytes)
	bs := c.RawBitString()
	buf := bs.Buffer()
	bit := func(p int) uint { return uint((buf[p/8] >> (7 - uint(p%8))) & 1) }
	for i := 0; i < lenBits; i++ {
		zzvrt.Assert("length-field", bit(pre+i) == uint(nbytes>>uint(lenBits-1-i))&1)
	}
	for i := 0; i < 8*nbytes; i++ {
		zzvrt.Assert("value-bits", bit(pre+lenBits+i) == uint(raw[i/8]>>(7-uint(i%8)))&1)
	}
	_ = c.WriteUint(zzvrt.NondetU64("suffix"), 5)
	_ = c.Skip(pre)
	got, err := dec(c)
	zzvrt.Assert("decode-ok", err == nil)
	if err == nil {
		zzvrt.Assert("roundtrip", got.Cmp(v) == 0)
	}
	zzvrt.Assert("consumed", c.BitsAvailableForRead() == 5)
	zzvrt.Cover("ok", err == nil)
}
