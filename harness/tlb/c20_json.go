//go:build verif

package tlb

import "github.com/tonkeeper/tongo/zzvrt"

// JSON (decimal text) forms of the generated small integer types: every value of the type's domain
// prints to text that parses back to the same value, quoted or unquoted.
func VH_C20_json_Uint16(quoted bool) {
	v := Uint16(zzvrt.NondetU16("v"))
	b, err := v.MarshalJSON()
	zzvrt.Assert("marshal-ok", err == nil && len(b) >= 1)
	if quoted {
		q := make([]byte, 0, len(b)+2)
		q = append(q, '"')
		q = append(q, b...)
		q = append(q, '"')
		b = q
	}
	var y Uint16
	err = y.UnmarshalJSON(b)
	zzvrt.Assert("unmarshal-ok", err == nil)
	zzvrt.Assert("roundtrip", y == v)
	zzvrt.Cover("five-digits", v >= 10000)
	zzvrt.ObserveU64("y", uint64(y))
}

func VH_C20_json_Int16() {
	v := Int16(zzvrt.NondetU16("v"))
	b, err := v.MarshalJSON()
	zzvrt.Assert("marshal-ok", err == nil && len(b) >= 1)
	var y Int16
	err = y.UnmarshalJSON(b)
	zzvrt.Assert("unmarshal-ok", err == nil)
	zzvrt.Assert("roundtrip", y == v)
	zzvrt.Cover("negative", v < 0)
	zzvrt.ObserveU64("y", uint64(uint16(y)))
}

func VH_C20_json_Uint7() {
	v := Uint7(zzvrt.NondetByte("v") & 0x7f)
	b, err := v.MarshalJSON()
	zzvrt.Assert("marshal-ok", err == nil)
	var y Uint7
	zzvrt.Assert("unmarshal-ok", y.UnmarshalJSON(b) == nil)
	zzvrt.Assert("roundtrip", y == v)
}

// SignedCoins and Grams with at most 5 decimal digits
func VH_C20_json_coins(lim int) {
	v := zzvrt.NondetI64("v")
	zzvrt.Assume(v > -int64(lim) && v < int64(lim))
	g := SignedCoins(v)
	b, err := g.MarshalJSON()
	zzvrt.Assert("marshal-ok", err == nil)
	var y SignedCoins
	err = y.UnmarshalJSON(b)
	zzvrt.Assert("unmarshal-ok", err == nil)
	zzvrt.Assert("roundtrip", y == g)
	zzvrt.Cover("negative", v < 0)
	u := zzvrt.NondetU64("u")
	zzvrt.Assume(u < uint64(lim))
	gr := Grams(u)
	b, err = gr.MarshalJSON()
	zzvrt.Assert("grams-marshal-ok", err == nil)
	var z Grams
	zzvrt.Assert("grams-unmarshal-ok", z.UnmarshalJSON(b) == nil)
	zzvrt.Assert("grams-roundtrip", z == gr)
}

// Magic (constructor tag) JSON form "0x<hex>": every 32-bit value, incl. 0 and values with leading
// zero nibbles, prints to text that parses back to the same value.
func VH_C20_json_magic() {
	v := Magic(zzvrt.NondetU32("v"))
	b, err := v.MarshalJSON()
	zzvrt.Assert("marshal-ok", err == nil && len(b) >= 5)
	var y Magic
	err = y.UnmarshalJSON(b)
	zzvrt.Assert("unmarshal-ok", err == nil)
	zzvrt.Assert("roundtrip", y == v)
	zzvrt.Cover("zero", v == 0)
	zzvrt.Cover("eight-digits", v >= 0x10000000)
	zzvrt.ObserveU64("y", uint64(y))
}

// MsgAddress text form of a standard address "<workchain>:<64 hex>": EVERY workchain -128..127
// (symbolic), a fixed account part with one symbolic byte; the text parses back to the same AddrStd.
func VH_C20_json_addrstd() {
	var a MsgAddress
	a.SumType = "AddrStd"
	a.AddrStd.WorkchainId = int8(zzvrt.NondetByte("wc"))
	for i := 0; i < 32; i++ {
		a.AddrStd.Address[i] = byte(0x1f + 7*i)
	}
	a.AddrStd.Address[31] = zzvrt.NondetByte("last")
	b, err := a.MarshalJSON()
	zzvrt.Assert("marshal-ok", err == nil)
	var y MsgAddress
	err = y.UnmarshalJSON(b)
	zzvrt.Assert("unmarshal-ok", err == nil)
	zzvrt.Assert("same-kind", y.SumType == "AddrStd")
	zzvrt.Assert("same-workchain", y.AddrStd.WorkchainId == a.AddrStd.WorkchainId)
	zzvrt.Assert("same-account", y.AddrStd.Address == a.AddrStd.Address)
	zzvrt.Assert("no-anycast", !y.AddrStd.Anycast.Exists)
	zzvrt.Cover("negative-workchain", a.AddrStd.WorkchainId < 0)
	zzvrt.ObserveInt("wc", int(y.AddrStd.WorkchainId))
}
