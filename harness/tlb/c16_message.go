//go:build verif

package tlb

import (
	"github.com/tonkeeper/tongo/boc"
	"github.com/tonkeeper/tongo/zzvrt"
)

func vArbStdAddress(name string, spec *vSpecBits) MsgAddress {
	var a MsgAddress
	a.SumType = "AddrStd"
	a.AddrStd.WorkchainId = int8(zzvrt.NondetByte(name + "-wc"))
	spec.uint(2, 2)
	spec.bit(false)
	spec.uint(uint64(uint8(a.AddrStd.WorkchainId)), 8)
	for i := 0; i < 32; i++ {
		a.AddrStd.Address[i] = zzvrt.NondetByte(name)
		spec.uint(uint64(a.AddrStd.Address[i]), 8)
	}
	return a
}

func vSpecGramsInto(spec *vSpecBits, v uint64) {
	bits, n := vSpecGrams(v)
	for i := 0; i < n; i++ {
		spec.b = append(spec.b, bits[i])
	}
}

func vArbLeafCell(name string, nbits int) *boc.Cell {
	c := boc.NewCell()
	for i := 0; i < nbits; i++ {
		_ = c.WriteBit(zzvrt.NondetBool(name))
	}
	return c
}

// vArbMessage builds a message of the given kind (0 internal, 1 external-in, 2 external-out) with
// symbolic leaves, together with the specification bits of its root cell (block.tlb message$_).
// init: 0 none, 1 inline StateInit, 2 StateInit in a reference.  body: inline or in a reference.
func vArbMessage(kind, init int, bodyRef bool, vb int, spec *vSpecBits) (Message, int) {
	var m Message
	refs := 0
	switch kind {
	case 0:
		m.Info.SumType = "IntMsgInfo"
		spec.uint(0, 1)
		info := &struct {
			IhrDisabled bool
			Bounce      bool
			Bounced     bool
			Src         MsgAddress
			Dest        MsgAddress
			Value       CurrencyCollection
			IhrFee      Grams
			FwdFee      Grams
			CreatedLt   uint64
			CreatedAt   uint32
		}{}
		info.IhrDisabled, info.Bounce, info.Bounced = zzvrt.NondetBool("ihr"), zzvrt.NondetBool("bounce"), zzvrt.NondetBool("bounced")
		spec.bit(info.IhrDisabled)
		spec.bit(info.Bounce)
		spec.bit(info.Bounced)
		info.Src = vArbStdAddress("src", spec)
		info.Dest = vArbStdAddress("dst", spec)
		val := zzvrt.NondetU64("value")
		// instance parameter vb: number of significant bytes of the amount (0..8); all amounts of that size
		if vb == 0 {
			zzvrt.Assume(val == 0)
		} else {
			zzvrt.Assume(val>>(8*uint(vb-1)) != 0 && (vb == 8 || val>>(8*uint(vb)) == 0))
		}
		info.Value.Grams = Grams(val)
		vSpecGramsInto(spec, uint64(info.Value.Grams))
		spec.bit(false) // empty extra-currency dictionary
		fee := zzvrt.NondetByte("ihrfee")
		zzvrt.Assume(fee != 0)
		info.IhrFee = Grams(fee)
		vSpecGramsInto(spec, uint64(info.IhrFee))
		info.FwdFee = 0
		vSpecGramsInto(spec, 0)
		info.CreatedLt = zzvrt.NondetU64("lt")
		spec.uint(info.CreatedLt, 64)
		info.CreatedAt = zzvrt.NondetU32("at")
		spec.uint(uint64(info.CreatedAt), 32)
		m.Info.IntMsgInfo = info
	case 1:
		m.Info.SumType = "ExtInMsgInfo"
		spec.uint(2, 2)
		info := &struct {
			Src       MsgAddress
			Dest      MsgAddress
			ImportFee VarUInteger16
		}{}
		info.Src.SumType = "AddrNone"
		spec.uint(0, 2)
		info.Dest = vArbStdAddress("dst", spec)
		spec.uint(0, 4) // import fee 0
		m.Info.ExtInMsgInfo = info
	case 2:
		m.Info.SumType = "ExtOutMsgInfo"
		spec.uint(3, 2)
		info := &struct {
			Src       MsgAddress
			Dest      MsgAddress
			CreatedLt uint64
			CreatedAt uint32
		}{}
		info.Src = vArbStdAddress("src", spec)
		info.Dest.SumType = "AddrNone"
		spec.uint(0, 2)
		info.CreatedLt = zzvrt.NondetU64("lt")
		spec.uint(info.CreatedLt, 64)
		info.CreatedAt = zzvrt.NondetU32("at")
		spec.uint(uint64(info.CreatedAt), 32)
		m.Info.ExtOutMsgInfo = info
	}
	if init == 0 {
		spec.bit(false)
	} else {
		m.Init.Exists = true
		m.Init.Value.IsRight = init == 2
		var si StateInit
		si.Code.Exists = true
		si.Code.Value.Value = *vArbLeafCell("code", 8)
		si.Data.Exists = true
		si.Data.Value.Value = *vArbLeafCell("data", 8)
		m.Init.Value.Value = si
		spec.bit(true)
		spec.bit(init == 2)
		if init == 1 {
			// _ split_depth:(Maybe (## 5)) special:(Maybe TickTock) code:(Maybe ^Cell) data:(Maybe ^Cell) library:(HashmapE 256 SimpleLib)
			spec.bit(false)
			spec.bit(false)
			spec.bit(true)
			spec.bit(true)
			spec.bit(false)
			refs += 2
		} else {
			refs++
		}
	}
	body := vArbLeafCell("body", 12)
	m.Body.IsRight = bodyRef
	m.Body.Value = Any(*body)
	spec.bit(bodyRef)
	if bodyRef {
		refs++
	} else {
		for i := 0; i < 12; i++ {
			spec.b = append(spec.b, vCellBit(body, i))
		}
	}
	return m, refs
}

// C03/C04: the message encodes bit-exactly as block.tlb prescribes and decodes to an equal value.
// C16: the hash reported for the decoded message is the representation hash of its source cell,
// with and without a caching hasher, and the cursors of the source cell are reset.
func VH_C16_Message(kind, init int, bodyRef bool, vb int) {
	spec := &vSpecBits{}
	m, refs := vArbMessage(kind, init, bodyRef, vb, spec)
	c := boc.NewCell()
	err := Marshal(c, m)
	zzvrt.Assert("encode-ok", err == nil)
	vAssertCellIs(c, spec, "spec")
	zzvrt.Assert("spec-refs", c.RefsSize() == refs)
	want, herr := c.Hash256()
	zzvrt.Assert("hash-ok", herr == nil)

	var got Message
	err = Unmarshal(c, &got)
	zzvrt.Assert("decode-ok", err == nil)
	zzvrt.Assert("identity-hash", got.Hash(false) == Bits256(want))
	zzvrt.Assert("same-constructor", got.Info.SumType == m.Info.SumType)
	zzvrt.Assert("init", got.Init.Exists == m.Init.Exists && got.Init.Value.IsRight == m.Init.Value.IsRight)
	zzvrt.Assert("body-place", got.Body.IsRight == m.Body.IsRight)
	switch kind {
	case 0:
		zzvrt.Assert("int-fields", got.Info.IntMsgInfo != nil && got.Info.IntMsgInfo.Src.AddrStd == m.Info.IntMsgInfo.Src.AddrStd &&
			got.Info.IntMsgInfo.Dest.AddrStd == m.Info.IntMsgInfo.Dest.AddrStd && got.Info.IntMsgInfo.Value.Grams == m.Info.IntMsgInfo.Value.Grams &&
			got.Info.IntMsgInfo.IhrFee == m.Info.IntMsgInfo.IhrFee && got.Info.IntMsgInfo.FwdFee == m.Info.IntMsgInfo.FwdFee &&
			got.Info.IntMsgInfo.CreatedLt == m.Info.IntMsgInfo.CreatedLt && got.Info.IntMsgInfo.CreatedAt == m.Info.IntMsgInfo.CreatedAt &&
			got.Info.IntMsgInfo.Bounce == m.Info.IntMsgInfo.Bounce && got.Info.IntMsgInfo.Bounced == m.Info.IntMsgInfo.Bounced && got.Info.IntMsgInfo.IhrDisabled == m.Info.IntMsgInfo.IhrDisabled)
	case 1:
		zzvrt.Assert("extin-fields", got.Info.ExtInMsgInfo != nil && got.Info.ExtInMsgInfo.Dest.AddrStd == m.Info.ExtInMsgInfo.Dest.AddrStd && got.Info.ExtInMsgInfo.Src.SumType == "AddrNone")
	case 2:
		zzvrt.Assert("extout-fields", got.Info.ExtOutMsgInfo != nil && got.Info.ExtOutMsgInfo.Src.AddrStd == m.Info.ExtOutMsgInfo.Src.AddrStd &&
			got.Info.ExtOutMsgInfo.CreatedLt == m.Info.ExtOutMsgInfo.CreatedLt && got.Info.ExtOutMsgInfo.CreatedAt == m.Info.ExtOutMsgInfo.CreatedAt)
	}
	// with a caching hasher (NewDecoder), and again from the same decoder (warm cache)
	c.ResetCounters()
	dec := NewDecoder()
	var got2 Message
	err = dec.Unmarshal(c, &got2)
	zzvrt.Assert("decode2-ok", err == nil)
	zzvrt.Assert("identity-hash-with-hasher", got2.Hash(false) == Bits256(want))
	c.ResetCounters()
	var got3 Message
	err = dec.Unmarshal(c, &got3)
	zzvrt.Assert("identity-hash-warm-hasher", err == nil && got3.Hash(false) == Bits256(want))
	// re-encoding the decoded value gives a cell with the same representation
	c2 := boc.NewCell()
	err = Marshal(c2, got)
	zzvrt.Assert("re-encode-ok", err == nil)
	h2, _ := c2.Hash256()
	zzvrt.Assert("re-encode-same-hash", h2 == want)
	zzvrt.Cover("ok", err == nil)
	zzvrt.ObserveInt("bits", c.BitSize())
}

// C16: normalised hash of an external-in message depends only on destination and body: it equals the
// hash of the canonical form and ignores the import fee, the state-init and the body placement.
func VH_C16_normalized(init int, bodyRef bool, feeBytes int) {
	spec := &vSpecBits{}
	m, _ := vArbMessage(1, init, bodyRef, 0, spec)
	fee := zzvrt.NondetU64("fee")
	if feeBytes == 0 {
		zzvrt.Assume(fee == 0)
	} else {
		zzvrt.Assume(fee>>(8*uint(feeBytes-1)) != 0 && (feeBytes == 8 || fee>>(8*uint(feeBytes)) == 0))
	}
	var feeBig VarUInteger16
	_ = feeBig.UnmarshalJSON([]byte("0"))
	if fee != 0 {
		c0 := boc.NewCell()
		_ = Marshal(c0, Grams(fee))
		_ = Unmarshal(c0, &feeBig)
	}
	m.Info.ExtInMsgInfo.ImportFee = feeBig
	c := boc.NewCell()
	err := Marshal(c, m)
	zzvrt.Assert("encode-ok", err == nil)
	var got Message
	err = Unmarshal(c, &got)
	zzvrt.Assert("decode-ok", err == nil)
	// canonical form: ext_in_msg_info$10 src:addr_none dest import_fee:0, no init, body in a reference
	canon := boc.NewCell()
	_ = canon.WriteUint(2, 2)
	_ = canon.WriteUint(0, 2)
	_ = canon.WriteUint(2, 2)
	_ = canon.WriteBit(false)
	_ = canon.WriteUint(uint64(uint8(m.Info.ExtInMsgInfo.Dest.AddrStd.WorkchainId)), 8)
	_ = canon.WriteBytes(m.Info.ExtInMsgInfo.Dest.AddrStd.Address[:])
	_ = canon.WriteUint(0, 4)
	_ = canon.WriteBit(false)
	_ = canon.WriteBit(true)
	bodyCell := boc.Cell(m.Body.Value)
	bodyCopy := boc.NewCell()
	for i := 0; i < bodyCell.BitSize(); i++ {
		_ = bodyCopy.WriteBit(vCellBit(&bodyCell, i) == 1)
	}
	_ = canon.AddRef(bodyCopy)
	want, _ := canon.Hash256()
	zzvrt.Assert("normalized-hash-is-canonical", got.Hash(true) == Bits256(want))
	zzvrt.Cover("reached", true)
	zzvrt.ObserveInt("bits", c.BitSize())
}

// A message decoded OUT OF A MERKLE PROOF whose body has been pruned: the message cell then has
// level 1 and its representation hash differs from its level-0 hash.  The identity hash captured by
// Message.UnmarshalTLB equals the representation hash of that cell - without a hasher, with a cold
// hasher, and with a hasher that has already hashed the whole proof (the cell is in its cache).
func VH_C16_message_in_proof(kind int) {
	spec := &vSpecBits{}
	m, _ := vArbMessage(kind, 0, true, 8, spec)
	c := boc.NewCell()
	zzvrt.Assert("encode-ok", Marshal(c, m) == nil)
	prover, err := boc.NewMerkleProver(c)
	zzvrt.Assert("prover-ok", err == nil)
	cur := prover.Cursor()
	cur.Ref(0).Prune()
	proof, err := prover.CreateProof(cur)
	zzvrt.Assert("proof-ok", err == nil)
	cells, err := boc.DeserializeBoc(proof)
	zzvrt.Assert("proof-parses", err == nil && len(cells) == 1 && cells[0].RefsSize() == 1)
	pm := cells[0].Refs()[0]
	zzvrt.Assert("message-cell-has-level-1", pm.Level() == 1)
	want, herr := pm.Hash256()
	zzvrt.Assert("hash-ok", herr == nil)
	var cold Message
	zzvrt.Assert("decode-ok", Unmarshal(pm, &cold) == nil)
	zzvrt.Assert("identity-hash-no-hasher", cold.Hash(false) == Bits256(want))
	pm.ResetCounters()
	dec := NewDecoder()
	_, err = dec.hasher.Hash(cells[0]) // the whole proof was hashed before (e.g. to check it)
	zzvrt.Assert("proof-hash-ok", err == nil)
	var warm Message
	zzvrt.Assert("decode-warm-ok", dec.Unmarshal(pm, &warm) == nil)
	zzvrt.Assert("identity-hash-cached-hasher", warm.Hash(false) == Bits256(want))
	zzvrt.Cover("reached", true)
	zzvrt.ObserveInt("level", pm.Level())
}

func vSpecCell(s *vSpecBits) *boc.Cell {
	c := boc.NewCell()
	for _, b := range s.b {
		_ = c.WriteBit(b == 1)
	}
	return c
}

// A transaction cell laid out by hand from block.tlb (transaction$0111 ... with a storage-only
// description, empty out-message dictionary and, optionally, an inbound external message): the hash
// reported by Transaction.UnmarshalTLB is the representation hash of the source cell - without a hasher
// and with a caching hasher -, the decoded scalar fields are the ones laid out, SourceBoc() parses back
// to a cell with that hash (instances without an inbound message), and the inbound message decoded as part of the transaction (its cell is in
// the hasher cache by then) reports the hash of its own cell.
func VH_C16_transaction(withInMsg bool, status int) {
	s := &vSpecBits{}
	s.uint(7, 4)
	var addr, prev [32]byte
	for i := 0; i < 32; i++ {
		addr[i] = zzvrt.NondetByte("addr")
		s.uint(uint64(addr[i]), 8)
	}
	lt := zzvrt.NondetU64("lt")
	s.uint(lt, 64)
	for i := 0; i < 32; i++ {
		prev[i] = zzvrt.NondetByte("prev")
		s.uint(uint64(prev[i]), 8)
	}
	prevLt := zzvrt.NondetU64("prev-lt")
	s.uint(prevLt, 64)
	now := zzvrt.NondetU32("now")
	s.uint(uint64(now), 32)
	s.uint(0, 15)                                 // outmsg_cnt
	st := uint64(status & 3) // orig_status (instance parameter)
	s.uint(st, 2)
	s.uint(2, 2) // end_status: active
	fees := zzvrt.NondetByte("fees")
	zzvrt.Assume(fees != 0)
	s.uint(1, 4) // total_fees: Grams of one byte
	s.uint(uint64(fees), 8)
	s.uint(0, 1) // no extra currencies
	root := vSpecCell(s)

	msgs := &vSpecBits{}
	var msgCell *boc.Cell
	if withInMsg {
		ms := &vSpecBits{}
		m, _ := vArbMessage(1, 0, false, 0, ms)
		msgCell = boc.NewCell()
		zzvrt.Assert("message-encodes", Marshal(msgCell, m) == nil)
		msgs.uint(1, 1)
	} else {
		msgs.uint(0, 1)
	}
	msgs.uint(0, 1) // out_msgs: empty dictionary
	c1 := vSpecCell(msgs)
	if withInMsg {
		_ = c1.AddRef(msgCell)
	}
	_ = root.AddRef(c1)
	upd := &vSpecBits{}
	upd.uint(0x72, 8)
	for i := 0; i < 64; i++ {
		upd.uint(uint64(zzvrt.NondetByte("state-hash")), 8)
	}
	_ = root.AddRef(vSpecCell(upd))
	descr := &vSpecBits{}
	descr.uint(1, 4) // trans_storage$0001
	descr.uint(0, 4) // storage_fees_collected: Grams 0
	descr.uint(0, 1) // storage_fees_due: nothing
	descr.uint(0, 1) // acst_unchanged$0
	_ = root.AddRef(vSpecCell(descr))

	want, herr := root.Hash256()
	zzvrt.Assert("hash-ok", herr == nil)
	for round := 0; round < 2; round++ {
		root.ResetCounters()
		var tx Transaction
		var err error
		if round == 0 {
			err = Unmarshal(root, &tx)
		} else {
			err = NewDecoder().Unmarshal(root, &tx)
		}
		zzvrt.Assert("decode-ok", err == nil)
		if err != nil {
			return
		}
		zzvrt.Assert("identity-hash", tx.Hash() == Bits256(want))
		zzvrt.Assert("scalar-fields", tx.AccountAddr == Bits256(addr) && tx.Lt == lt && tx.PrevTransHash == Bits256(prev) && tx.PrevTransLt == prevLt && tx.Now == now && tx.OutMsgCnt == 0)
		zzvrt.Assert("end-status", tx.EndStatus == AccountActive)
		zzvrt.Assert("description", tx.Description.SumType == "TransStorage")
		zzvrt.Assert("in-msg-presence", tx.Msgs.InMsg.Exists == withInMsg)
		if withInMsg && tx.Msgs.InMsg.Exists {
			mh, _ := msgCell.Hash256()
			zzvrt.Assert("in-msg-identity-hash", tx.Msgs.InMsg.Value.Value.Hash(false) == Bits256(mh))
		}
		if !withInMsg {
			src, err := tx.SourceBoc()
			zzvrt.Assert("source-boc-ok", err == nil)
			cells, err := boc.DeserializeBoc(src)
			zzvrt.Assert("source-boc-parses", err == nil && len(cells) == 1)
			if err == nil && len(cells) == 1 {
				h2, _ := cells[0].Hash256()
				zzvrt.Assert("source-boc-is-the-transaction", h2 == want)
			}
		}
	}
	zzvrt.Cover("reached", true)
	zzvrt.ObserveInt("bits", root.BitSize())
}
