//go:build verif

package tlb

import (
	"github.com/tonkeeper/tongo/boc"
	"github.com/tonkeeper/tongo/zzvrt"
)

// Dictionary round trip with SIGNED 8-bit keys: two distinct symbolic keys inserted with Put in either
// order, marshalled and unmarshalled: exactly the same key->value pairs, keys listed in ascending
// key-BIT order (negative keys, whose leading bit is 1, come last), Get agrees, and the cell does not
// depend on the insertion order.  Instance parameter: number of common leading key bits (tree shape).
func VH_C05_dict_int8(cp int) {
	k0 := Int8(zzvrt.NondetByte("k0"))
	k1 := Int8(zzvrt.NondetByte("k1"))
	x := uint8(k0) ^ uint8(k1)
	zzvrt.Assume(x>>uint(7-cp) == 1)
	v0, v1 := Uint8(zzvrt.NondetByte("v0")), Uint8(zzvrt.NondetByte("v1"))
	var h, g HashmapE[Int8, Uint8]
	h.Put(k0, v0)
	h.Put(k1, v1)
	g.Put(k1, v1)
	g.Put(k0, v0)
	c := boc.NewCell()
	zzvrt.Assert("marshal-ok", Marshal(c, h) == nil)
	c2 := boc.NewCell()
	zzvrt.Assert("marshal2-ok", Marshal(c2, g) == nil)
	h1, _ := c.Hash256()
	h2, _ := c2.Hash256()
	zzvrt.Assert("insertion-order-independent", h1 == h2)
	var d HashmapE[Int8, Uint8]
	zzvrt.Assert("unmarshal-ok", Unmarshal(c, &d) == nil)
	keys := d.Keys()
	vals := d.Values()
	zzvrt.Assert("two-pairs", len(keys) == 2 && len(vals) == 2)
	if len(keys) == 2 && len(vals) == 2 {
		lo, hi, vlo, vhi := k0, k1, v0, v1
		if uint8(k0) > uint8(k1) {
			lo, hi, vlo, vhi = k1, k0, v1, v0
		}
		zzvrt.Assert("ascending-bit-order", keys[0] == lo && keys[1] == hi)
		zzvrt.Assert("values-follow-keys", vals[0] == vlo && vals[1] == vhi)
	}
	a, ok := d.Get(k0)
	zzvrt.Assert("get-k0", ok && a == v0)
	b, ok := d.Get(k1)
	zzvrt.Assert("get-k1", ok && b == v1)
	zzvrt.Cover("mixed-signs", (k0 < 0) != (k1 < 0))
	zzvrt.Cover("both-negative", k0 < 0 && k1 < 0)
	zzvrt.ObserveInt("n", len(keys))
}

func vBitLen(n int) int {
	l := 0
	for n > 0 {
		l++
		n >>= 1
	}
	return l
}

// hml_long$10 n:(#<= m) s:(n * Bit)
func vLongLabel(c *boc.Cell, bits uint64, n int, m int) {
	_ = c.WriteUint(2, 2)
	_ = c.WriteUint(uint64(n), vBitLen(m))
	_ = c.WriteUint(bits, n)
}

// An augmented dictionary (HashmapAug 8 Uint8 Uint16) written by ANOTHER implementation, laid out by
// hand from block.tlb: ahm_edge label node; ahmn_fork left right extra; ahmn_leaf extra value.  Two
// keys sharing exactly cp leading bits (prefix symbolic), long labels everywhere.  Decoding yields
// the two keys in ascending order with their values and the tree of extras.
func VH_C05_hashmap_aug(cp int) {
	prefix := uint64(zzvrt.NondetByte("prefix")) >> uint(8-cp)
	rest := 8 - cp - 1
	tail0 := uint64(zzvrt.NondetByte("tail0")) & (1<<uint(rest) - 1)
	tail1 := uint64(zzvrt.NondetByte("tail1")) & (1<<uint(rest) - 1)
	k0 := prefix<<uint(8-cp) | tail0
	k1 := prefix<<uint(8-cp) | 1<<uint(rest) | tail1
	v0, v1 := zzvrt.NondetByte("v0"), zzvrt.NondetByte("v1")
	e, e0, e1 := zzvrt.NondetU16("e"), zzvrt.NondetU16("e0"), zzvrt.NondetU16("e1")
	leaf := func(tail uint64, extra uint16, val byte) *boc.Cell {
		c := boc.NewCell()
		vLongLabel(c, tail, rest, rest)
		_ = c.WriteUint(uint64(extra), 16)
		_ = c.WriteUint(uint64(val), 8)
		return c
	}
	root := boc.NewCell()
	vLongLabel(root, prefix, cp, 8)
	_ = root.AddRef(leaf(tail0, e0, v0))
	_ = root.AddRef(leaf(tail1, e1, v1))
	_ = root.WriteUint(uint64(e), 16)
	var h HashmapAug[Uint8, Uint8, Uint16]
	err := Unmarshal(root, &h)
	zzvrt.Assert("decode-ok", err == nil)
	if err != nil {
		return
	}
	zzvrt.Assert("two-entries", len(h.keys) == 2 && len(h.values) == 2)
	if len(h.keys) == 2 && len(h.values) == 2 {
		zzvrt.Assert("keys-ascending", uint64(h.keys[0]) == k0 && uint64(h.keys[1]) == k1)
		zzvrt.Assert("values-follow-keys", byte(h.values[0]) == v0 && byte(h.values[1]) == v1)
	}
	zzvrt.Assert("root-extra", uint16(h.extra.Data) == e)
	zzvrt.Assert("child-extras", h.extra.Left != nil && h.extra.Right != nil && uint16(h.extra.Left.Data) == e0 && uint16(h.extra.Right.Data) == e1)
	zzvrt.Cover("reached", true)
	zzvrt.ObserveInt("n", len(h.keys))
}

// Three distinct unsigned 8-bit keys k0 < k1 < k2 whose neighbours share exactly a and b leading bits
// (a != b: the instance parameters fix the shape of the tree), inserted in two different orders:
// the two cells have the same hash, and the decoded dictionary lists exactly the three pairs in
// ascending order; Get agrees for present keys and for an absent one.
func VH_C05_dict_three(a int, b int) {
	k0, k1, k2 := zzvrt.NondetByte("k0"), zzvrt.NondetByte("k1"), zzvrt.NondetByte("k2")
	zzvrt.Assume(k0 < k1 && k1 < k2)
	zzvrt.Assume((k0^k1)>>uint(7-a) == 1)
	zzvrt.Assume((k1^k2)>>uint(7-b) == 1)
	v0, v1, v2 := Uint8(zzvrt.NondetByte("v0")), Uint8(zzvrt.NondetByte("v1")), Uint8(zzvrt.NondetByte("v2"))
	var h, g HashmapE[Uint8, Uint8]
	h.Put(Uint8(k0), v0)
	h.Put(Uint8(k1), v1)
	h.Put(Uint8(k2), v2)
	g.Put(Uint8(k2), v2)
	g.Put(Uint8(k0), v0)
	g.Put(Uint8(k1), v1)
	c := boc.NewCell()
	zzvrt.Assert("marshal-ok", Marshal(c, h) == nil)
	c2 := boc.NewCell()
	zzvrt.Assert("marshal2-ok", Marshal(c2, g) == nil)
	h1, _ := c.Hash256()
	h2, _ := c2.Hash256()
	zzvrt.Assert("insertion-order-independent", h1 == h2)
	var d HashmapE[Uint8, Uint8]
	zzvrt.Assert("unmarshal-ok", Unmarshal(c, &d) == nil)
	keys := d.Keys()
	vals := d.Values()
	zzvrt.Assert("three-pairs", len(keys) == 3 && len(vals) == 3)
	if len(keys) == 3 && len(vals) == 3 {
		zzvrt.Assert("ascending-keys", byte(keys[0]) == k0 && byte(keys[1]) == k1 && byte(keys[2]) == k2)
		zzvrt.Assert("values-follow-keys", vals[0] == v0 && vals[1] == v1 && vals[2] == v2)
	}
	x, ok := d.Get(Uint8(k1))
	zzvrt.Assert("get-middle", ok && x == v1)
	absent := zzvrt.NondetByte("absent")
	zzvrt.Assume(absent != k0 && absent != k1 && absent != k2)
	_, ok = d.Get(Uint8(absent))
	zzvrt.Assert("absent-not-found", !ok)
	zzvrt.Cover("reached", true)
	zzvrt.ObserveInt("n", len(keys))
}
