//go:build verif

package tlb

import (
	"github.com/tonkeeper/tongo/boc"
	"github.com/tonkeeper/tongo/zzvrt"
)

// Dictionary round trip with SIGNED 8-bit keys: two distinct symbolic keys inserted with Put in either
// order, marshalled and unmarshalled: exactly the same key->value pairs, keys listed in ascending
// key-BIT order (negative keys, whose leading bit is 1, come last), Get agrees, and the cell does not
// depend on the insertion order.  Instance parameter: number of common leading key bits (tree shape).
func VH_C05_dict_int8(cp int) {
	k0 := Int8(zzvrt.NondetByte("k0"))
	k1 := Int8(zzvrt.NondetByte("k1"))
	x := uint8(k0) ^ uint8(k1)
	zzvrt.Assume(x>>uint(7-cp) == 1)
	v0, v1 := Uint8(zzvrt.NondetByte("v0")), Uint8(zzvrt.NondetByte("v1"))
	var h, g HashmapE[Int8, Uint8]
	h.Put(k0, v0)
	h.Put(k1, v1)
	g.Put(k1, v1)
	g.Put(k0, v0)
	c := boc.NewCell()
	zzvrt.Assert("marshal-ok", Marshal(c, h) == nil)
	c2 := boc.NewCell()
	zzvrt.Assert("marshal2-ok", Marshal(c2, g) == nil)
	h1, _ := c.Hash256()
	h2, _ := c2.Hash256()
	zzvrt.Assert("insertion-order-independent", h1 == h2)
	var d HashmapE[Int8, Uint8]
	zzvrt.Assert("unmarshal-ok", Unmarshal(c, &d) == nil)
	keys := d.Keys()
	vals := d.Values()
	zzvrt.Assert("two-pairs", len(keys) == 2 && len(vals) == 2)
	if len(keys) == 2 && len(vals) == 2 {
		lo, hi, vlo, vhi := k0, k1, v0, v1
		if uint8(k0) > uint8(k1) {
			lo, hi, vlo, vhi = k1, k0, v1, v0
		}
		zzvrt.Assert("ascending-bit-order", keys[0] == lo && keys[1] == hi)
		zzvrt.Assert("values-follow-keys", vals[0] == vlo && vals[1] == vhi)
	}
	a, ok := d.Get(k0)
	zzvrt.Assert("get-k0", ok && a == v0)
	b, ok := d.Get(k1)
	zzvrt.Assert("get-k1", ok && b == v1)
	zzvrt.Cover("mixed-signs", (k0 < 0) != (k1 < 0))
	zzvrt.Cover("both-negative", k0 < 0 && k1 < 0)
	zzvrt.ObserveInt("n", len(keys))
}
