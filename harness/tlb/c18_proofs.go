//go:build verif

package tlb

import (
	"crypto/sha256"

	"github.com/tonkeeper/tongo/boc"
	"github.com/tonkeeper/tongo/zzvrt"
)

// reference (independent) level-0 hash and depth of a cell of a pruned tree: pruned-branch cells
// (level mask 1) contribute their stored hash/depth, every other cell is hashed from its
// representation with the level-0 descriptor.
func vLevel0(c *boc.Cell) ([]byte, int) {
	bs := c.RawBitString()
	buf := bs.Buffer()
	n := c.BitSize()
	if c.CellType() == boc.PrunedBranchCell {
		return buf[2:34], int(buf[34])<<8 | int(buf[35])
	}
	refs := c.Refs()
	d1 := byte(len(refs))
	if c.CellType() != boc.OrdinaryCell {
		d1 += 8
	}
	tr := []byte{d1, byte(n/8 + (n+7)/8)}
	for i := 0; i < (n+7)/8; i++ {
		b := buf[i]
		if i == (n+7)/8-1 && n%8 != 0 {
			k := uint(n % 8)
			b = (b & byte(uint(0xff00)>>k)) | (1 << (7 - k))
		}
		tr = append(tr, b)
	}
	depth := 0
	var hs [][]byte
	for _, r := range refs {
		h, d := vLevel0(r)
		hs = append(hs, h)
		tr = append(tr, byte(d>>8), byte(d))
		depth = zzvrt.IteInt(d >= depth, d+1, depth)
	}
	for _, h := range hs {
		tr = append(tr, h...)
	}
	s := sha256.Sum256(tr)
	return s[:], depth
}

func vEq32c(x, y []byte) bool {
	same := zzvrt.And(len(x) == 32, len(y) == 32)
	for b := 0; b < 32; b++ {
		same = zzvrt.And(same, x[b] == y[b])
	}
	return same
}

// A proof for key number j of a dictionary with N symbolic 8-bit keys and values: one Merkle-proof
// root carrying hash and depth of the original root; the pruned tree has that hash at level 0; the
// value decodes from the proof; an absent key gives an error.
func VH_C18_prove(N int, j int, cp int) {
	var h Hashmap[Uint8, Uint8]
	var keys, vals [3]Uint8
	for i := 0; i < N; i++ {
		keys[i] = Uint8(zzvrt.NondetByte("key"))
		vals[i] = Uint8(zzvrt.NondetByte("val"))
		for k := 0; k < i; k++ {
			zzvrt.Assume(keys[i] != keys[k])
		}
		h.Put(keys[i], vals[i])
	}
	if N == 2 {
		// instance parameter: the two keys share exactly cp leading bits (the shape of the tree is then fixed)
		x := keys[0] ^ keys[1]
		zzvrt.Assume(x>>uint(7-cp) == 1)
	}
	root := boc.NewCell()
	zzvrt.Assert("dict-marshals", Marshal(root, h) == nil)
	rootHash, err := root.Hash()
	zzvrt.Assert("root-hash-ok", err == nil)
	_, rootDepth := vLevel0(root)
	prover, err := boc.NewMerkleProver(root)
	zzvrt.Assert("prover-ok", err == nil)
	kb := boc.NewBitString(8)
	_ = kb.WriteUint(uint64(keys[j]), 8)
	root.ResetCounters()
	val, proof, err := ProveKeyInHashmap[Uint8](prover, root, kb)
	zzvrt.Assert("present-key-proved", err == nil)
	zzvrt.Assert("value", val == vals[j])
	cells, err := boc.DeserializeBoc(proof)
	zzvrt.Assert("proof-parses-to-one-root", err == nil && len(cells) == 1)
	p := cells[0]
	zzvrt.Assert("merkle-proof-root", p.CellType() == boc.MerkleProofCell && p.BitSize() == 280 && p.RefsSize() == 1)
	pb := p.RawBitString()
	pbuf := pb.Buffer()
	zzvrt.Assert("proof-tag", pbuf[0] == 3)
	zzvrt.Assert("proof-carries-root-hash", vEq32c(pbuf[1:33], rootHash))
	zzvrt.Assert("proof-carries-root-depth", int(pbuf[33])<<8|int(pbuf[34]) == rootDepth)
	child := p.Refs()[0]
	h0, d0 := vLevel0(child)
	zzvrt.Assert("pruned-tree-level0-hash", vEq32c(h0, rootHash))
	zzvrt.Assert("pruned-tree-level0-depth", d0 == rootDepth)
	// the value can be decoded from the proof
	var hp Hashmap[Uint8, Uint8]
	zzvrt.Assert("proof-decodes", Unmarshal(child, &hp) == nil)
	got, ok := hp.Get(keys[j])
	zzvrt.Assert("value-in-proof", ok && got == vals[j])
	// an absent key yields an error
	absent := Uint8(zzvrt.NondetByte("absent"))
	for i := 0; i < N; i++ {
		zzvrt.Assume(absent != keys[i])
	}
	ab := boc.NewBitString(8)
	_ = ab.WriteUint(uint64(absent), 8)
	root.ResetCounters()
	prover2, _ := boc.NewMerkleProver(root)
	_, _, err = ProveKeyInHashmap[Uint8](prover2, root, ab)
	zzvrt.Assert("absent-key-refused", err != nil)
	zzvrt.Cover("proved", true)
	zzvrt.ObserveInt("proof-len", len(proof))
}

// Key widths that are not a multiple of 8 (12-bit keys): a present key is proved with its value, and
// EVERY absent key is refused - in particular one that differs from a present key only in the last
// width%8 bits.  N symbolic distinct keys (1..2; cp = number of common leading bits of the two keys).
func VH_C18_prove_uint12(N int, cp int) {
	var h Hashmap[Uint12, Uint8]
	var keys [2]Uint12
	var vals [2]Uint8
	for i := 0; i < N; i++ {
		keys[i] = Uint12(zzvrt.NondetU16("key") & 0xfff)
		vals[i] = Uint8(zzvrt.NondetByte("val"))
		h.Put(keys[i], vals[i])
	}
	if N == 2 {
		x := keys[0] ^ keys[1]
		zzvrt.Assume(x>>uint(11-cp) == 1)
	}
	root := boc.NewCell()
	zzvrt.Assert("dict-marshals", Marshal(root, h) == nil)
	for j := 0; j < N; j++ {
		prover, err := boc.NewMerkleProver(root)
		zzvrt.Assert("prover-ok", err == nil)
		kb := boc.NewBitString(12)
		_ = kb.WriteUint(uint64(keys[j]), 12)
		root.ResetCounters()
		val, _, err := ProveKeyInHashmap[Uint8](prover, root, kb)
		zzvrt.Assert("present-key-proved", err == nil)
		zzvrt.Assert("value", val == vals[j])
	}
	absent := Uint12(zzvrt.NondetU16("absent") & 0xfff)
	for i := 0; i < N; i++ {
		zzvrt.Assume(absent != keys[i])
	}
	ab := boc.NewBitString(12)
	_ = ab.WriteUint(uint64(absent), 12)
	root.ResetCounters()
	prover2, _ := boc.NewMerkleProver(root)
	_, _, err := ProveKeyInHashmap[Uint8](prover2, root, ab)
	zzvrt.Assert("absent-key-refused", err != nil)
	zzvrt.Cover("absent-differs-in-last-bits-only", (absent^keys[0])>>4 == 0)
	zzvrt.ObserveBool("refused", err != nil)
}
