//go:build verif

package tonconnect

import (
	"crypto/ed25519"
	"time"

	"github.com/tonkeeper/tongo/tlb"
	"github.com/tonkeeper/tongo/ton"
	"github.com/tonkeeper/tongo/zzvrt"
)

// Client side: a proof made by CreateSignedProof, taken apart by the server's own parsing
// (convertTonProofMessage) and re-hashed (createMessage), verifies under the wallet key, and carries
// exactly the account, time stamp, domain and payload it was made for.  Workchain of at most 5 decimal
// digits (symbolic), account fixed except one byte, domain / payload of dl / pl symbolic bytes.
func VH_C19_client_proof(dl int, pl int) {
	priv := vKeyFromSeed()
	pub := ed25519.PublicKey(priv[32:])
	var id ton.AccountID
	wc := zzvrt.NondetI32("wc")
	zzvrt.Assume(wc > -100000 && wc < 100000)
	id.Workchain = wc
	for i := 0; i < 32; i++ {
		id.Address[i] = byte(0x21 + 5*i)
	}
	id.Address[7] = zzvrt.NondetByte("addr")
	ts := zzvrt.NondetI64("ts")
	zzvrt.Assume(ts >= 0 && ts < 1<<40)
	domain := string(zzvrt.NondetBytes("domain", dl))
	payload := string(zzvrt.NondetBytes("payload", pl))
	proof, err := CreateSignedProof(payload, id, priv, tlb.StateInit{}, ProofOptions{Timestamp: time.Unix(ts, 0), Domain: domain})
	zzvrt.Assert("proof-created", err == nil && proof != nil)
	if err != nil || proof == nil {
		return
	}
	pm, err := convertTonProofMessage(proof)
	zzvrt.Assert("server-parses-the-proof", err == nil)
	if err != nil {
		return
	}
	zzvrt.Assert("same-workchain", pm.workChain == wc)
	same := len(pm.address) == 32
	for i := 0; i < 32 && i < len(pm.address); i++ {
		same = zzvrt.And(same, pm.address[i] == id.Address[i])
	}
	zzvrt.Assert("same-address", same)
	zzvrt.Assert("same-timestamp", pm.ts == ts)
	zzvrt.Assert("same-domain-and-payload", pm.domain == domain && pm.payload == payload)
	zzvrt.Assert("signature-is-64-bytes", len(pm.signature) == 64)
	msg, err := createMessage(pm)
	zzvrt.Assert("message-ok", err == nil)
	zzvrt.Assert("proof-verifies-under-the-wallet-key", signatureVerify(pub, msg, pm.signature))
	zzvrt.Cover("negative-workchain", wc < 0)
	zzvrt.ObserveInt("sig", len(pm.signature))
}
