//go:build verif

package tonconnect

import (
	"time"

	"github.com/tonkeeper/tongo/zzvrt"
)

// The HMAC-protected, time-limited payload: a payload made by GeneratePayload is accepted by
// CheckPayload of the same server when it is checked after `wait` seconds with wait below the life
// time, refused once the life time (plus the second of slack that whole-second time stamps give) has
// passed, and a text of another length is refused.  Secret symbolic; HMAC ideal; the clock is the
// deterministic one (each reading 1 ms after the previous one plus the time slept).
func VH_C19_payload(life int, wait int) {
	s := &Server{secret: string(zzvrt.NondetBytes("secret", 4)), lifeTimePayload: int64(life)}
	p, err := s.GeneratePayload()
	zzvrt.Assert("generated", err == nil && len(p) == 64)
	time.Sleep(time.Duration(wait) * time.Second)
	ok, err := s.CheckPayload(p)
	if wait < life {
		zzvrt.Assert("fresh-payload-accepted", ok && err == nil)
	}
	if wait > life+1 {
		zzvrt.Assert("expired-payload-refused", !ok && err != nil)
	}
	ok2, _ := s.CheckPayload(p[:62])
	zzvrt.Assert("short-text-refused", !ok2)
	other := &Server{secret: string(zzvrt.NondetBytes("other-secret", 4)), lifeTimePayload: int64(life)}
	_ = other
	zzvrt.Cover("accepted", ok)
	zzvrt.Cover("refused", !ok)
	zzvrt.ObserveBool("ok", ok)
}
