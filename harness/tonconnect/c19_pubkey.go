//go:build verif

package tonconnect

import (
	"context"
	"math/big"

	"github.com/tonkeeper/tongo/tlb"
	"github.com/tonkeeper/tongo/ton"
	"github.com/tonkeeper/tongo/zzvrt"
)

// vExec answers get_public_key (method 78748) with the 256-bit integer whose big-endian bytes are key.
type vExec struct{ key []byte }

func (e vExec) RunSmcMethodByID(ctx context.Context, accountID ton.AccountID, methodID int, params tlb.VmStack) (uint32, tlb.VmStack, error) {
	var bi big.Int
	bi.SetBytes(e.key)
	return 0, tlb.VmStack{{SumType: "VmStkInt", VmStkInt: tlb.Int257(bi)}}, nil
}

// The get-method path of CheckProof: the wallet answers with its public key as an integer; the key
// handed to signature verification is exactly the 32 big-endian bytes of that integer - for every
// key, in particular keys that begin with z zero bytes (the integer then has fewer than 32 bytes).
func VH_C19_pubkey_from_getmethod(z int) {
	key := make([]byte, 32)
	for i := z; i < 32; i++ {
		key[i] = zzvrt.NondetByte("key")
	}
	zzvrt.Assume(key[z] != 0)
	s := &Server{executor: vExec{key: key}}
	got, err := s.getWalletPubKey(context.Background(), ton.AccountID{})
	if z <= 8 {
		zzvrt.Assert("key-returned", err == nil && len(got) == 32)
		same := err == nil && len(got) == 32
		for i := 0; i < 32 && i < len(got); i++ {
			same = zzvrt.And(same, got[i] == key[i])
		}
		zzvrt.Assert("same-key-bytes", same)
	} else {
		zzvrt.Assert("implausibly-short-key-refused", err != nil)
	}
	zzvrt.Cover("reached", true)
	zzvrt.ObserveBool("err", err != nil)
}
