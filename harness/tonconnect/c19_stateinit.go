//go:build verif

package tonconnect

import (
	"crypto/ed25519"

	"github.com/tonkeeper/tongo/boc"
	"github.com/tonkeeper/tongo/tlb"
	"github.com/tonkeeper/tongo/ton"
	"github.com/tonkeeper/tongo/wallet"
	"github.com/tonkeeper/tongo/zzvrt"
)

// ParseStateInit on a state-init of a known wallet version with an arbitrary key: returns exactly that
// key; on a state-init lacking code or data it returns an error (never "no key and no error", which
// would make ed25519.Verify panic on a zero-length key).  compareStateInitWithAddress accepts exactly
// the address that is the hash of the state-init.
func VH_C19_stateinit(ver int, hasCode bool, hasData bool) {
	pub := ed25519.PublicKey(zzvrt.NondetBytes("pub", 32))
	sub := zzvrt.NondetU32("subwallet")
	si, err := wallet.GenerateStateInit(pub, wallet.Version(ver), nil, 0, &sub)
	zzvrt.Assert("stateinit-ok", err == nil)
	si.Code.Exists = hasCode
	si.Data.Exists = hasData
	c := boc.NewCell()
	zzvrt.Assert("marshal-ok", tlb.Marshal(c, si) == nil)
	h, _ := c.Hash256()
	s, err := c.ToBocBase64()
	zzvrt.Assert("boc-ok", err == nil)
	key, err := ParseStateInit(s)
	zzvrt.Assert("key-or-error", key != nil || err != nil)
	if hasCode && hasData {
		zzvrt.Assert("parse-ok", err == nil && len(key) == 32)
		same := true
		for i := 0; i < 32; i++ {
			same = zzvrt.And(same, i < len(key) && key[i] == pub[i])
		}
		zzvrt.Assert("key-is-the-wallet-key", same)
	}
	var a, b [32]byte
	a = h
	ok, err := compareStateInitWithAddress(accountOf(a), s)
	zzvrt.Assert("own-hash-accepted", err == nil && ok)
	b = h
	b[zzvrt.NondetByte("pos")&31] ^= zzvrt.NondetByte("delta") | 1
	ok2, err := compareStateInitWithAddress(accountOf(b), s)
	zzvrt.Assert("other-address-rejected", err == nil && !ok2)
	zzvrt.Cover("reached", true)
}

func accountOf(h [32]byte) ton.AccountID { return ton.AccountID{Workchain: 0, Address: h} }
