//go:build verif

package tonconnect

import (
	"crypto/ed25519"
	"crypto/sha256"

	"github.com/tonkeeper/tongo/zzvrt"
)

// The signed bytes are sha256(0xffff | "ton-connect" | sha256("ton-proof-item-v2/" | BE32(workchain) |
// address | LE32(len domain) | domain | LE64(timestamp) | payload)) -- for all workchains, addresses,
// timestamps and all domains / payloads of the given lengths.
func VH_C19_message(dl int, pl int) {
	m := &parsedMessage{workChain: zzvrt.NondetI32("wc"), address: zzvrt.NondetBytes("addr", 32), ts: zzvrt.NondetI64("ts"),
		domain: string(zzvrt.NondetBytes("domain", dl)), payload: string(zzvrt.NondetBytes("payload", pl))}
	got, err := createMessage(m)
	zzvrt.Assert("ok", err == nil && len(got) == 32)
	inner := []byte("ton-proof-item-v2/")
	wc := uint32(m.workChain)
	inner = append(inner, byte(wc>>24), byte(wc>>16), byte(wc>>8), byte(wc))
	inner = append(inner, m.address...)
	inner = append(inner, byte(dl), byte(dl>>8), byte(dl>>16), byte(dl>>24))
	inner = append(inner, []byte(m.domain)...)
	ts := uint64(m.ts)
	for i := 0; i < 8; i++ {
		inner = append(inner, byte(ts>>(8*uint(i))))
	}
	inner = append(inner, []byte(m.payload)...)
	ih := sha256.Sum256(inner)
	outer := []byte{0xff, 0xff}
	outer = append(outer, []byte("ton-connect")...)
	outer = append(outer, ih[:]...)
	want := sha256.Sum256(outer)
	same := true
	for i := 0; i < 32; i++ {
		same = zzvrt.And(same, i < len(got) && got[i] == want[i])
	}
	zzvrt.Assert("signed-bytes-follow-the-specification", same)
	zzvrt.Cover("ts-above-32-bits", m.ts > 1<<32)
}

// With an ideal signature: the proof signed by the wallet key verifies; it does not verify under
// another key, nor when address, workchain, domain, timestamp or payload differ from what was signed.
func VH_C19_signature(dl int, pl int, what int) {
	priv := vKeyFromSeed()
	pub := ed25519.PublicKey(priv[32:])
	m := &parsedMessage{workChain: zzvrt.NondetI32("wc"), address: zzvrt.NondetBytes("addr", 32), ts: zzvrt.NondetI64("ts"),
		domain: string(zzvrt.NondetBytes("domain", dl)), payload: string(zzvrt.NondetBytes("payload", pl))}
	msg, _ := createMessage(m)
	sig := signMessage(priv, msg)
	zzvrt.Assert("own-proof-verifies", signatureVerify(pub, msg, sig))
	m2 := &parsedMessage{workChain: m.workChain, address: m.address, ts: m.ts, domain: m.domain, payload: m.payload}
	switch {
	case what >= 10 && what <= 17: // one byte of the timestamp differs
		d := zzvrt.NondetByte("delta")
		zzvrt.Assume(d != 0)
		m2.ts = m.ts ^ int64(uint64(d)<<(8*uint(what-10)))
	case what >= 20 && what <= 23: // one byte of the workchain differs
		d := zzvrt.NondetByte("delta")
		zzvrt.Assume(d != 0)
		m2.workChain = m.workChain ^ int32(uint32(d)<<(8*uint(what-20)))
	case what == 2:
		a2 := zzvrt.NondetBytes("addr2", 32)
		diff := false
		for i := 0; i < 32; i++ {
			diff = zzvrt.Or(diff, a2[i] != m.address[i])
		}
		zzvrt.Assume(diff)
		m2.address = a2
	case what == 3:
		d2 := zzvrt.NondetBytes("domain2", dl)
		m2.domain = string(d2)
		zzvrt.Assume(m2.domain != m.domain)
	case what == 4:
		p2 := zzvrt.NondetBytes("payload2", pl)
		m2.payload = string(p2)
		zzvrt.Assume(m2.payload != m.payload)
	}
	msg2, _ := createMessage(m2)
	if what != 5 {
		zzvrt.Assert("altered-field-rejected", !signatureVerify(pub, msg2, sig))
	} else {
		other := vKeyFromSeed()
		diff := false
		for i := 0; i < 32; i++ {
			diff = zzvrt.Or(diff, other[32+i] != pub[i])
		}
		zzvrt.Assume(diff)
		zzvrt.Assert("other-key-rejected", !signatureVerify(ed25519.PublicKey(other[32:]), msg, sig))
	}
	zzvrt.Cover("reached", true)
}

func vKeyFromSeed() ed25519.PrivateKey { return ed25519.NewKeyFromSeed(zzvrt.NondetBytes("seed", 32)) }
