//go:build verif

package ton

import "github.com/tonkeeper/tongo/zzvrt"

// Hand-written TL form of BlockIDExt = tonNode.blockIdExt workchain:int shard:long seqno:int
// root_hash:int256 file_hash:int256: 80 bytes LE32 | LE64 | LE32 | 32 raw | 32 raw, for every value;
// UnmarshalTL inverts it and refuses any other length.
func VH_C10_block_id_ext(wrong int) {
	var id BlockIDExt
	id.Workchain = zzvrt.NondetI32("wc")
	id.Shard = zzvrt.NondetU64("shard")
	id.Seqno = zzvrt.NondetU32("seqno")
	for i := 0; i < 32; i++ {
		id.RootHash[i] = zzvrt.NondetByte("root")
		id.FileHash[i] = zzvrt.NondetByte("file")
	}
	b, err := id.MarshalTL()
	zzvrt.Assert("marshal-ok", err == nil && len(b) == 80)
	var spec []byte
	for i := 0; i < 4; i++ {
		spec = append(spec, byte(uint32(id.Workchain)>>(8*uint(i))))
	}
	for i := 0; i < 8; i++ {
		spec = append(spec, byte(id.Shard>>(8*uint(i))))
	}
	for i := 0; i < 4; i++ {
		spec = append(spec, byte(id.Seqno>>(8*uint(i))))
	}
	spec = append(spec, id.RootHash[:]...)
	spec = append(spec, id.FileHash[:]...)
	same := len(b) == len(spec)
	for i := 0; i < len(b) && i < len(spec); i++ {
		same = zzvrt.And(same, b[i] == spec[i])
	}
	zzvrt.Assert("schema-layout", same)
	var y BlockIDExt
	zzvrt.Assert("unmarshal-ok", y.UnmarshalTL(spec) == nil)
	zzvrt.Assert("roundtrip", y == id)
	var z BlockIDExt
	zzvrt.Assert("other-length-refused", z.UnmarshalTL(spec[:wrong]) != nil)
	zzvrt.Cover("reached", true)
}
