//go:build verif

package ton

import (
	"bytes"

	"github.com/tonkeeper/tongo/tlb"
	"github.com/tonkeeper/tongo/zzvrt"
)

func vArbAccount() AccountID {
	var a AccountID
	a.Workchain = zzvrt.NondetI32("wc")
	for i := 0; i < 32; i++ {
		a.Address[i] = zzvrt.NondetByte("addr")
	}
	return a
}

// TL form: 4 bytes little-endian workchain + 32 raw bytes, and back, for all int32 workchains
func VH_C17_account_tl() {
	a := vArbAccount()
	b, err := a.MarshalTL()
	zzvrt.Assert("marshal-ok", err == nil && len(b) == 36)
	zzvrt.Assert("workchain-le32", uint32(b[0])|uint32(b[1])<<8|uint32(b[2])<<16|uint32(b[3])<<24 == uint32(a.Workchain))
	for i := 0; i < 32; i++ {
		zzvrt.Assert("address-raw", b[4+i] == a.Address[i])
	}
	var y AccountID
	err = y.UnmarshalTL(bytes.NewReader(b))
	zzvrt.Assert("unmarshal-ok", err == nil)
	zzvrt.Assert("roundtrip", y == a)
	zzvrt.Cover("negative-wc", a.Workchain < 0)
	zzvrt.ObserveInt("wc", int(y.Workchain))
}

// TL-B form: ToMsgAddress / AccountIDFromTlb round trip for workchains in int8
func VH_C17_account_tlb() {
	a := vArbAccount()
	zzvrt.Assume(a.Workchain >= -128 && a.Workchain <= 127)
	m := a.ToMsgAddress()
	zzvrt.Assert("std", m.SumType == "AddrStd" && !m.AddrStd.Anycast.Exists)
	back, err := AccountIDFromTlb(m)
	zzvrt.Assert("back-ok", err == nil && back != nil)
	if back != nil {
		zzvrt.Assert("roundtrip", *back == a)
	}
	var none *AccountID
	zzvrt.Assert("nil-is-addr-none", none.ToMsgAddress().SumType == "AddrNone")
	zzvrt.Cover("negative-wc", a.Workchain < 0)
}

// anycast rewrite: the first `depth` bits of the address are replaced by the rewrite prefix
func VH_C17_anycast(depth int) {
	var m tlb.MsgAddress
	m.SumType = "AddrStd"
	m.AddrStd.WorkchainId = int8(zzvrt.NondetByte("wc"))
	for i := 0; i < 32; i++ {
		m.AddrStd.Address[i] = zzvrt.NondetByte("addr")
	}
	m.AddrStd.Anycast.Exists = true
	m.AddrStd.Anycast.Value.Depth = uint32(depth)
	pfx := zzvrt.NondetU32("pfx")
	zzvrt.Assume(uint64(pfx) < uint64(1)<<uint(depth))
	m.AddrStd.Anycast.Value.RewritePfx = pfx
	orig := m.AddrStd.Address
	got, err := AccountIDFromTlb(m)
	zzvrt.Assert("ok", err == nil && got != nil)
	if got != nil {
		zzvrt.Assert("workchain", got.Workchain == int32(m.AddrStd.WorkchainId))
		for p := 0; p < 256; p++ {
			gb := (got.Address[p/8] >> (7 - uint(p%8))) & 1
			if p < depth {
				zzvrt.Assert("rewritten-bits", uint32(gb) == (pfx>>uint(depth-1-p))&1)
			} else {
				zzvrt.Assert("other-bits-kept", gb == (orig[p/8]>>(7-uint(p%8)))&1)
			}
		}
	}
	zzvrt.Cover("ok", err == nil)
}
