//go:build verif

package ton

import "github.com/tonkeeper/tongo/zzvrt"

func vAccount(wc int32) AccountID {
	var id AccountID
	id.Workchain = wc
	for i := 0; i < 32; i++ {
		id.Address[i] = byte(0x35 + 11*i)
	}
	return id
}

// User-friendly form: every flag combination (symbolic) and, which = 0: every workchain of the int8
// range (symbolic); which = 1: every value of the last address byte (symbolic), workchain -1; print to
// a 48-character text that parses back to the same account.
func VH_C17_friendly_roundtrip(which int, flags int) {
	wc := int32(-1)
	if which == 0 {
		wc = int32(int8(zzvrt.NondetByte("wc")))
	}
	id := vAccount(wc)
	if which == 1 {
		id.Address[31] = zzvrt.NondetByte("last")
	}
	bounce, testnet := flags&1 != 0, flags&2 != 0 // flags 0..3: that combination; 4: symbolic
	if flags == 4 {
		bounce, testnet = zzvrt.NondetBool("bounce"), zzvrt.NondetBool("testnet")
	}
	s := id.ToHuman(bounce, testnet)
	zzvrt.Assert("48-characters", len(s) == 48)
	got, err := AccountIDFromBase64Url(s)
	zzvrt.Assert("parses", err == nil)
	zzvrt.Assert("same-workchain", got.Workchain == wc)
	zzvrt.Assert("same-address", got.Address == id.Address)
	zzvrt.Cover("parsed", err == nil)
	zzvrt.ObserveInt("wc", int(got.Workchain))
}

// A user-friendly string in which the character at position p is replaced by ANY other base64url
// digit (symbolic) is rejected.
func VH_C17_friendly_corrupt(p int, wc int) {
	id := vAccount(int32(wc))
	s := id.ToHuman(true, false)
	c := zzvrt.NondetByte("c")
	isDigit := zzvrt.Or(zzvrt.Or(zzvrt.And(c >= 'A', c <= 'Z'), zzvrt.And(c >= 'a', c <= 'z')), zzvrt.Or(zzvrt.And(c >= '0', c <= '9'), zzvrt.Or(c == '-', c == '_')))
	zzvrt.Assume(isDigit)
	zzvrt.Assume(c != s[p])
	b := []byte(s)
	b[p] = c
	_, err := AccountIDFromBase64Url(string(b))
	zzvrt.Assert("corrupted-text-rejected", err != nil)
	zzvrt.Cover("reached", true)
	zzvrt.ObserveBool("err", err != nil)
}

// Raw text form "<workchain>:<64 hex>" and its JSON form: every workchain of at most 5 decimal digits
// of both signs (symbolic), account part fixed except one symbolic byte; ToRaw -> AccountIDFromRaw /
// ParseAccountID and MarshalJSON -> UnmarshalJSON give back the same account.
func VH_C17_raw_roundtrip() {
	wc := zzvrt.NondetI32("wc")
	zzvrt.Assume(wc > -100000 && wc < 100000)
	id := vAccount(wc)
	id.Address[0] = zzvrt.NondetByte("first")
	s := id.ToRaw()
	got, err := AccountIDFromRaw(s)
	zzvrt.Assert("raw-parses", err == nil)
	zzvrt.Assert("raw-same", got.Workchain == wc && got.Address == id.Address)
	got2, err := ParseAccountID(s)
	zzvrt.Assert("parse-account-id", err == nil && got2.Workchain == wc && got2.Address == id.Address)
	b, err := id.MarshalJSON()
	zzvrt.Assert("json-ok", err == nil)
	var y AccountID
	err = y.UnmarshalJSON(b)
	zzvrt.Assert("json-parses", err == nil)
	zzvrt.Assert("json-same", y.Workchain == wc && y.Address == id.Address)
	zzvrt.Cover("negative", wc < 0)
	zzvrt.ObserveInt("wc", int(got.Workchain))
}

// Short raw forms are zero-filled on the left: "<wc>:<hex of k digits>" (k < 64) denotes the address
// whose hex form is that text padded with leading zeros.
func VH_C17_raw_zero_fill(k int) {
	id := vAccount(0)
	id.Address[31] = zzvrt.NondetByte("last")
	for i := 0; i < 32-(k+1)/2; i++ {
		id.Address[i] = 0
	}
	if k%2 == 1 {
		id.Address[32-(k+1)/2] &= 0x0f
	}
	full := id.ToRaw()
	short := "0:" + full[len(full)-k:]
	got, err := AccountIDFromRaw(short)
	zzvrt.Assert("short-form-parses", err == nil)
	zzvrt.Assert("short-form-zero-filled", got.Workchain == 0 && got.Address == id.Address)
	zzvrt.ObserveBool("err", err != nil)
}
