//go:build verif

package ton

import (
	"github.com/tonkeeper/tongo/tlb"
	"github.com/tonkeeper/tongo/zzvrt"
)

// reference: number of trailing zero bits of a non-zero word, by a plain loop
func vTz(m uint64) int {
	tz := 0
	for i := 63; i >= 0; i-- {
		if (m>>uint(i))&1 == 1 {
			tz = i
		}
	}
	return tz
}

// reference: do the top k bits of a and b agree?
func vTopBitsEqual(a, b uint64, k int) bool {
	eq := true
	for i := 0; i < 64; i++ {
		bit := 63 - i
		eq = zzvrt.And(eq, zzvrt.Or(i >= k, (a>>uint(bit))&1 == (b>>uint(bit))&1))
	}
	return eq
}

// ParseShardID / Encode round trip for every non-zero 64-bit id; zero is rejected.
func VH_C17_shard_roundtrip() {
	m := zzvrt.NondetI64("m")
	s, err := ParseShardID(m)
	zzvrt.Assert("zero-rejected", (err != nil) == (m == 0))
	if err == nil {
		zzvrt.Assert("roundtrip", s.Encode() == m)
	}
	zzvrt.Cover("root-shard", err == nil && uint64(m) == 1<<63)
	zzvrt.Cover("deep-shard", err == nil && m&1 == 1)
	zzvrt.ObserveU64("enc", uint64(s.Encode()))
}

// An account belongs to a shard iff the shard prefix (the bits above the lowest set bit)
// is a binary prefix of the account address.
func VH_C17_shard_match_account() {
	m := zzvrt.NondetU64("m")
	zzvrt.Assume(m != 0)
	s, _ := ParseShardID(int64(m))
	var a AccountID
	a.Workchain = zzvrt.NondetI32("wc")
	for i := 0; i < 32; i++ {
		a.Address[i] = zzvrt.NondetByte("a")
	}
	var ap uint64
	for i := 0; i < 8; i++ {
		ap = ap<<8 | uint64(a.Address[i])
	}
	k := 63 - vTz(m)
	ref := vTopBitsEqual(ap, m, k)
	got := s.MatchAccountID(a)
	zzvrt.Assert("match", got == ref)
	zzvrt.Cover("match-true-deep", ref && k == 60)
	zzvrt.Cover("match-false", !ref)
	zzvrt.Cover("root", k == 0)
	zzvrt.ObserveBool("got", got)
}

// A block's shard matches iff one of the two prefixes extends the other.
func VH_C17_shard_match_block() {
	m := zzvrt.NondetU64("m")
	b := zzvrt.NondetU64("b")
	zzvrt.Assume(m != 0)
	s, _ := ParseShardID(int64(m))
	got := s.MatchBlockID(BlockID{Workchain: 0, Shard: b, Seqno: zzvrt.NondetU32("seq")})
	if b == 0 {
		zzvrt.Assert("zero-shard-never-matches", !got)
	} else {
		ks := 63 - vTz(m)
		kb := 63 - vTz(b)
		k := zzvrt.IteInt(ks < kb, ks, kb)
		zzvrt.Assert("match", got == vTopBitsEqual(m, b, k))
	}
	zzvrt.Cover("match-true", got && m != b)
	zzvrt.Cover("match-false", !got && b != 0)
	zzvrt.ObserveBool("got", got)
}

// child/parent arithmetic: children extend the prefix by 0 / 1, the parent drops the last bit,
// and the two children partition exactly the accounts of the parent.
func VH_C17_shard_family() {
	sh := zzvrt.NondetU64("sh")
	zzvrt.Assume(sh != 0 && sh&1 == 0) // a shard that can still be split (prefix length <= 62)
	l := shardChild(sh, true)
	r := shardChild(sh, false)
	zzvrt.Assert("parent-l", shardParent(l) == sh)
	zzvrt.Assert("parent-r", shardParent(r) == sh)
	k := 63 - vTz(sh)
	zzvrt.Assert("l-len", 63-vTz(l) == k+1)
	zzvrt.Assert("r-len", 63-vTz(r) == k+1)
	zzvrt.Assert("l-prefix", vTopBitsEqual(l, sh, k) && (l>>uint(63-k))&1 == 0)
	zzvrt.Assert("r-prefix", vTopBitsEqual(r, sh, k) && (r>>uint(63-k))&1 == 1)
	var a AccountID
	for i := 0; i < 8; i++ {
		a.Address[i] = zzvrt.NondetByte("a")
	}
	ps, _ := ParseShardID(int64(sh))
	ls, _ := ParseShardID(int64(l))
	rs, _ := ParseShardID(int64(r))
	inP, inL, inR := ps.MatchAccountID(a), ls.MatchAccountID(a), rs.MatchAccountID(a)
	zzvrt.Assert("partition", inP == (inL != inR) && !(inL && inR))
	zzvrt.Cover("in-left", inL)
	zzvrt.Cover("in-right", inR)
	zzvrt.ObserveU64("l", l)
	zzvrt.ObserveU64("r", r)
}

// every non-root shard is a child of its parent
func VH_C17_shard_parent_child() {
	sh := zzvrt.NondetU64("sh")
	zzvrt.Assume(sh != 0 && sh != 1<<63)
	p := shardParent(sh)
	zzvrt.Assert("child-of-parent", shardChild(p, true) == sh || shardChild(p, false) == sh)
	zzvrt.Assert("parent-shorter", vTz(p) == vTz(sh)+1)
}

// convertShardIdent builds the 64-bit id from (prefix bits, prefix length)
func VH_C17_convertShardIdent() {
	var si tlb.ShardIdent
	n := zzvrt.NondetInt("pfxbits")
	zzvrt.Assume(0 <= n && n <= 60)
	pfx := zzvrt.NondetU64("prefix")
	zzvrt.Assume(pfx<<uint(n) == 0) // only the top n bits may be set
	si.ShardPfxBits = tlb.Uint6(n)
	si.WorkchainID = zzvrt.NondetI32("wc")
	si.ShardPrefix = pfx
	wc, sh := convertShardIdent(si)
	zzvrt.Assert("wc", wc == si.WorkchainID)
	zzvrt.Assert("len", sh != 0 && 63-vTz(sh) == n)
	zzvrt.Assert("bits", vTopBitsEqual(sh, pfx, n))
	zzvrt.Cover("len60", n == 60)
}
