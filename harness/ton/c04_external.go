//go:build verif

package ton

import (
	"github.com/tonkeeper/tongo/boc"
	"github.com/tonkeeper/tongo/tlb"
	"github.com/tonkeeper/tongo/zzvrt"
)

type vBits struct{ b []bool }

func (s *vBits) uint(v uint64, n int) {
	for i := n - 1; i >= 0; i-- {
		s.b = append(s.b, (v>>uint(i))&1 == 1)
	}
}

func vBitsAre(c *boc.Cell, s *vBits) bool {
	if c.BitSize() != len(s.b) {
		return false
	}
	bs := c.RawBitString()
	buf := bs.Buffer()
	ok := true
	for i, bit := range s.b {
		ok = zzvrt.And(ok, ((buf[i/8]>>(7-uint(i%8)))&1 == 1) == bit)
	}
	return ok
}

// External-message envelope (block.tlb):  message$_ info:ext_in_msg_info$10 src:addr_none$00
// dest:addr_std$10 anycast:nothing$0 workchain:int8 address:bits256 import_fee:Grams(0)
// init:(Maybe (Either StateInit ^StateInit)) body:(Either X ^X) - CreateExternalMessage puts the
// init (if any) and the body in references.  Every workchain of the int8 range and every address.
func VH_C04_external_message(hasInit bool) {
	var id AccountID
	id.Workchain = int32(int8(zzvrt.NondetByte("wc")))
	for i := 0; i < 32; i++ {
		id.Address[i] = zzvrt.NondetByte("addr")
	}
	body := boc.NewCell()
	bodyBits := &vBits{}
	for i := 0; i < 8; i++ {
		bit := zzvrt.NondetBool("body")
		_ = body.WriteBit(bit)
		bodyBits.b = append(bodyBits.b, bit)
	}
	var init *tlb.StateInit
	code := boc.NewCell()
	_ = code.WriteUint(0xc0de, 16)
	if hasInit {
		init = &tlb.StateInit{}
		init.Code.Exists = true
		init.Code.Value.Value = *code
	}
	var fee tlb.VarUInteger16
	msg, err := CreateExternalMessage(id, body, init, fee)
	zzvrt.Assert("created", err == nil)
	c := boc.NewCell()
	zzvrt.Assert("marshal-ok", tlb.Marshal(c, msg) == nil)
	s := &vBits{}
	s.uint(2, 2) // ext_in_msg_info$10
	s.uint(0, 2) // addr_none$00
	s.uint(2, 2) // addr_std$10
	s.uint(0, 1) // no anycast
	s.uint(uint64(uint8(int8(id.Workchain))), 8)
	for i := 0; i < 32; i++ {
		s.uint(uint64(id.Address[i]), 8)
	}
	s.uint(0, 4) // import_fee: Grams 0
	if hasInit {
		s.uint(3, 2) // just$1, right$1 (^StateInit)
	} else {
		s.uint(0, 1)
	}
	s.uint(1, 1) // body in a reference
	zzvrt.Assert("root-bits-follow-the-schema", vBitsAre(c, s))
	wantRefs := 1
	if hasInit {
		wantRefs = 2
	}
	zzvrt.Assert("ref-count", c.RefsSize() == wantRefs)
	if c.RefsSize() == wantRefs {
		refs := c.Refs()
		zzvrt.Assert("body-cell", vBitsAre(refs[wantRefs-1], bodyBits) && refs[wantRefs-1].RefsSize() == 0)
		if hasInit {
			si := &vBits{}
			si.uint(0, 1) // split_depth: nothing
			si.uint(0, 1) // special: nothing
			si.uint(1, 1) // code: just ^Cell
			si.uint(0, 1) // data: nothing
			si.uint(0, 1) // library: empty dictionary
			zzvrt.Assert("state-init-cell", vBitsAre(refs[0], si) && refs[0].RefsSize() == 1)
		}
	}
	zzvrt.Cover("ok", err == nil)
	zzvrt.ObserveInt("bits", c.BitSize())
}
