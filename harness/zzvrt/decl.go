//go:build verif

// Package zzvrt holds the verification primitives.  This file is the *encoding* view: the
// functions have no bodies, the symbolic executor intercepts them.  native.go is the replay view.
package zzvrt

func NondetInt(name string) int
func NondetI64(name string) int64
func NondetU64(name string) uint64
func NondetU32(name string) uint32
func NondetI32(name string) int32
func NondetU16(name string) uint16
func NondetByte(name string) byte
func NondetBool(name string) bool
func NondetBytes(name string, n int) []byte
func Assume(c bool)
func Assert(label string, c bool)
func Cover(label string, c bool)
func ObserveInt(label string, v int)
func ObserveU64(label string, v uint64)
func ObserveBool(label string, v bool)
func ObserveBytes(label string, v []byte)
func AllocLimit(n int)
func Symbolic() bool

// eager boolean connectives: both operands are evaluated, no branch is generated
func Implies(a, b bool) bool
func And(a, b bool) bool
func Or(a, b bool) bool
func IteU64(c bool, a, b uint64) uint64
func IteInt(c bool, a, b int) int
