//go:build verif

// Package zzvrt, replay view: the primitives read the values chosen by the solver from the
// current case and record what the natively compiled harness observes.
package zzvrt

import (
	"fmt"
	"math/big"
	"runtime"
)

type Case struct {
	Harness string            `json:"harness"`
	Args    []int64           `json:"args"`
	Nondet  map[string]string `json:"nondet"`
}

type Result struct {
	Harness      string     `json:"harness"`
	AssertFailed string     `json:"assert_failed"`
	AssumeFailed bool       `json:"assume_failed"`
	Panic        string     `json:"panic"`
	PanicFunc    string     `json:"panic_func"`
	Observes     [][]string `json:"observes"`
	Missing      []string   `json:"missing"`
	AllocBytes   uint64     `json:"alloc_bytes"`
}

type assertFailed struct{ label string }
type assumeFailed struct{}

var cur *Case
var res *Result
var counters map[string]int

func next(name string, bits uint) uint64 {
	k := counters[name]
	counters[name] = k + 1
	key := fmt.Sprintf("%s#%d", name, k)
	s, ok := cur.Nondet[key]
	if !ok {
		res.Missing = append(res.Missing, key)
		return 0
	}
	v, ok := new(big.Int).SetString(s, 10)
	if !ok {
		panic("bad nondet value " + s)
	}
	return v.Uint64()
}

func NondetInt(name string) int      { return int(next(name, 64)) }
func NondetI64(name string) int64    { return int64(next(name, 64)) }
func NondetU64(name string) uint64   { return next(name, 64) }
func NondetU32(name string) uint32   { return uint32(next(name, 32)) }
func NondetI32(name string) int32    { return int32(next(name, 32)) }
func NondetU16(name string) uint16   { return uint16(next(name, 16)) }
func NondetByte(name string) byte    { return byte(next(name, 8)) }
func NondetBool(name string) bool    { return next(name, 1) != 0 }
func NondetBytes(name string, n int) []byte {
	b := make([]byte, n)
	for i := range b {
		b[i] = byte(next(name, 8))
	}
	return b
}
func Assume(c bool) {
	if !c {
		panic(assumeFailed{})
	}
}
func Assert(label string, c bool) {
	if !c {
		panic(assertFailed{label})
	}
}
func Cover(label string, c bool) {}
func ObserveInt(label string, v int) {
	res.Observes = append(res.Observes, []string{label, fmt.Sprint(uint64(v))})
}
func ObserveU64(label string, v uint64) {
	res.Observes = append(res.Observes, []string{label, fmt.Sprint(v)})
}
func ObserveBool(label string, v bool) {
	x := "0"
	if v {
		x = "1"
	}
	res.Observes = append(res.Observes, []string{label, x})
}
func ObserveBytes(label string, v []byte) {
	res.Observes = append(res.Observes, []string{label, fmt.Sprintf("%x", v)})
}
func AllocLimit(n int) {}
func Symbolic() bool   { return false }

// Run executes one harness natively on one case.
func Run(c *Case, f func()) (r *Result) {
	cur = c
	res = &Result{Harness: c.Harness}
	r = res
	counters = map[string]int{}
	var m0, m1 runtime.MemStats
	runtime.ReadMemStats(&m0)
	defer func() {
		runtime.ReadMemStats(&m1)
		r.AllocBytes = m1.TotalAlloc - m0.TotalAlloc
		if e := recover(); e != nil {
			switch x := e.(type) {
			case assertFailed:
				r.AssertFailed = x.label
			case assumeFailed:
				r.AssumeFailed = true
			default:
				r.Panic = fmt.Sprint(e)
				pcs := make([]uintptr, 32)
				n := runtime.Callers(2, pcs)
				fr := runtime.CallersFrames(pcs[:n])
				for {
					f, more := fr.Next()
					if f.Function != "" && !hasPrefix(f.Function, "runtime.") && r.PanicFunc == "" {
						r.PanicFunc = f.Function
					}
					if !more {
						break
					}
				}
			}
		}
	}()
	f()
	return
}

func hasPrefix(s, p string) bool { return len(s) >= len(p) && s[:len(p)] == p }

func Implies(a, b bool) bool { return !a || b }
func And(a, b bool) bool     { return a && b }
func Or(a, b bool) bool      { return a || b }
func IteU64(c bool, a, b uint64) uint64 {
	if c {
		return a
	}
	return b
}
func IteInt(c bool, a, b int) int {
	if c {
		return a
	}
	return b
}
