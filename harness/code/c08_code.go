//go:build verif

package code

import "github.com/tonkeeper/tongo/zzvrt"

// ParseContractMethods sits on untrusted bytes (contract code fetched from a lite server): for every
// byte string of length L that starts with the generic bag-of-cells magic (all other bytes symbolic) it
// returns method ids or an error - every Go run-time check on the way is a VC.
func VH_C08_code_methods(L int) {
	b := zzvrt.NondetBytes("code", L)
	if L >= 4 {
		zzvrt.Assume(b[0] == 0xb5 && b[1] == 0xee && b[2] == 0x9c && b[3] == 0x72)
	}
	if L >= 6 {
		zzvrt.Assume(b[4]&7 == 1 && b[5] == 1) // 1-byte cell indices and offsets (the family with the most parses per length)
	}
	ids, err := ParseContractMethods(b)
	zzvrt.Assert("ids-or-error", err != nil || ids != nil || len(ids) == 0)
	zzvrt.Cover("refused", err != nil)
	zzvrt.ObserveBool("err", err != nil)
}
