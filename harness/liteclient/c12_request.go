//go:build verif

package liteclient

import (
	"context"
	"net"
	"time"

	"github.com/tonkeeper/tongo/zzvrt"
)

// vServerConn is the socket of a connection whose server answers inside Write: the hook sees every
// frame the client sends.
type vServerConn struct {
	hook    func(b []byte)
	written int
}

func (c *vServerConn) Read(b []byte) (int, error) { return 0, nil }
func (c *vServerConn) Write(b []byte) (int, error) {
	c.written++
	if c.hook != nil {
		c.hook(b)
	}
	return len(b), nil
}
func (c *vServerConn) Close() error                       { return nil }
func (c *vServerConn) LocalAddr() net.Addr                { return nil }
func (c *vServerConn) RemoteAddr() net.Addr               { return nil }
func (c *vServerConn) SetDeadline(t time.Time) error      { return nil }
func (c *vServerConn) SetReadDeadline(t time.Time) error  { return nil }
func (c *vServerConn) SetWriteDeadline(t time.Time) error { return nil }

func vAnswer(id queryID, data []byte) Packet {
	p := []byte{0x16, 0x84, 0xac, 0x0f}
	p = append(p, id[:]...)
	p = append(p, byte(len(data)))
	p = append(p, data...)
	for len(p)%4 != 0 {
		p = append(p, 0)
	}
	return Packet{Payload: p}
}

// Client.Request with another query pending: the frame goes to the connection chosen round-robin,
// carries adnl.message.query (magic | fresh id | length | query, padded to 4 bytes); the server
// answers the OTHER pending query first and then this one (both through the real processQueryAnswer,
// before Request reaches its select): Request returns exactly its own answer, the other waiter gets
// the other answer, the own id is unregistered afterwards and the round-robin index has advanced.
func VH_C12_request(qlen int, alen int) {
	ks := zzvrt.NondetBytes("tx-keystream", 4+32+4+32+4+qlen+3+32)
	c := &Client{timeout: time.Minute, queries: make(map[queryID]chan []byte)}
	other := vQueryID("other-id")
	otherCh := c.registerCallback(other)
	ansOwn := zzvrt.NondetBytes("own-answer", alen)
	ansOther := zzvrt.NondetBytes("other-answer", alen)
	var sent []byte
	delivered := 0
	hook := func(b []byte) {
		for i := 0; i < len(b); i++ {
			sent = append(sent, b[i]^ks[i])
		}
		if len(sent) >= 72 {
			var id queryID
			copy(id[:], sent[40:72])
			zzvrt.Assume(id != other) // 256-bit random ids collide with negligible probability
			if c.processQueryAnswer(vAnswer(other, ansOther)) == nil {
				delivered++
			}
			if c.processQueryAnswer(vAnswer(id, ansOwn)) == nil {
				delivered++
			}
		}
	}
	conns := [2]*vServerConn{{hook: hook}, {hook: hook}}
	for i := 0; i < 2; i++ {
		c.connections = append(c.connections, &Connection{status: Connected, econn: &encryptedConn{cipher: &vStream{ks: ks}, conn: conns[i]}})
	}
	start := 0
	if zzvrt.NondetBool("start-at-second") {
		start = 1
	}
	c.nextConn = start
	q := zzvrt.NondetBytes("query", qlen)
	got, err := c.Request(context.Background(), q)
	zzvrt.Assert("request-ok", err == nil)
	zzvrt.Assert("sent-on-the-round-robin-connection", conns[start].written == 1 && conns[1-start].written == 0)
	zzvrt.Assert("round-robin-advanced", c.nextConn == 1-start)
	zzvrt.Assert("both-answers-delivered", delivered == 2)
	same := len(got) == alen
	for i := 0; i < alen && i < len(got); i++ {
		same = zzvrt.And(same, got[i] == ansOwn[i])
	}
	zzvrt.Assert("own-answer-returned", same)
	zzvrt.Assert("other-waiter-has-its-answer", len(otherCh) == 1)
	if len(otherCh) == 1 {
		o := <-otherCh
		sameO := len(o) == alen
		for i := 0; i < alen && i < len(o); i++ {
			sameO = zzvrt.And(sameO, o[i] == ansOther[i])
		}
		zzvrt.Assert("other-answer-intact", sameO)
	}
	zzvrt.Assert("registry-empty-afterwards", len(c.queries) == 0)
	// the frame: LE32(size) | nonce(32) | payload | sha256 ; payload = magic | id | len | query | padding
	plen := 4 + 32 + 1 + qlen
	for plen%4 != 0 {
		plen++
	}
	zzvrt.Assert("frame-size", len(sent) == 4+32+plen+32)
	if len(sent) == 4+32+plen+32 {
		zzvrt.Assert("frame-length-field", int(sent[0])|int(sent[1])<<8|int(sent[2])<<16|int(sent[3])<<24 == 32+plen+32)
		zzvrt.Assert("query-magic", sent[36] == 0x7a && sent[37] == 0xf9 && sent[38] == 0x8b && sent[39] == 0xb4)
		zzvrt.Assert("query-length-byte", int(sent[72]) == qlen)
		okq := true
		for i := 0; i < qlen; i++ {
			okq = zzvrt.And(okq, sent[73+i] == q[i])
		}
		zzvrt.Assert("query-bytes", okq)
	}
	zzvrt.Cover("reached", err == nil)
	zzvrt.ObserveInt("sent", len(sent))
}

// The timeout clause: a call whose answer never arrives returns a timeout error by the client's
// deadline, also when the caller's own context carries a later deadline (the pool's long-lived
// contexts).  Time passes only in the blocked select: the model advances it to the earliest deadline
// among the contexts selected on.  When Request returns, the caller's far deadline has not been reached
// and the query is unregistered.
func VH_C12_request_timeout(qlen int, far bool) {
	ks := zzvrt.NondetBytes("tx-keystream", 4+32+4+32+4+qlen+3+32)
	c := &Client{timeout: 20 * time.Millisecond, queries: make(map[queryID]chan []byte)}
	conn := &vServerConn{}
	c.connections = append(c.connections, &Connection{status: Connected, econn: &encryptedConn{cipher: &vStream{ks: ks}, conn: conn}})
	parent := context.Background()
	if far {
		var cancel context.CancelFunc
		parent, cancel = context.WithTimeout(parent, 3*time.Second)
		defer cancel()
	}
	q := zzvrt.NondetBytes("query", qlen)
	got, err := c.Request(parent, q)
	zzvrt.Assert("unanswered-call-fails", err != nil && got == nil)
	zzvrt.Assert("returned-by-the-client-deadline", parent.Err() == nil)
	zzvrt.Assert("sent-once", conn.written == 1)
	zzvrt.Assert("registry-empty-afterwards", len(c.queries) == 0)
	zzvrt.Cover("timed-out", err != nil)
}
