//go:build verif

package liteclient

import (
	"bytes"

	"github.com/tonkeeper/tongo/tl"
	"github.com/tonkeeper/tongo/zzvrt"
)

// Decoding ARBITRARY bytes of length L into a generated TL type returns a value or an error: no
// run-time panic, and every allocation is bounded by the input length plus a constant
// (elements <= L + 4104: a short byte string may take up to 253 bytes, a long one is read in 4 KiB chunks).
func vTLTotal(L int, dec func(b []byte) error) {
	buf := zzvrt.NondetBytes("in", L)
	zzvrt.AllocLimit(L + 4104)
	err := dec(buf)
	zzvrt.Cover("returned", true)
	zzvrt.ObserveBool("err", err != nil)
}

func VH_C08_tl_AccountId(L int) {
	vTLTotal(L, func(b []byte) error { var x LiteServerAccountIdC; return tl.Unmarshal(bytes.NewReader(b), &x) })
}
func VH_C08_tl_SendMessageRequest(L int) {
	vTLTotal(L, func(b []byte) error { var x LiteServerSendMessageRequest; return tl.Unmarshal(bytes.NewReader(b), &x) })
}
func VH_C08_tl_Error(L int) {
	vTLTotal(L, func(b []byte) error { var x LiteServerErrorC; return tl.Unmarshal(bytes.NewReader(b), &x) })
}
func VH_C08_tl_BlockTransactions(L int) {
	vTLTotal(L, func(b []byte) error { var x LiteServerBlockTransactionsC; return tl.Unmarshal(bytes.NewReader(b), &x) })
}
func VH_C08_tl_RunMethodResult(L int) {
	vTLTotal(L, func(b []byte) error { var x LiteServerRunMethodResultC; return tl.Unmarshal(bytes.NewReader(b), &x) })
}
func VH_C08_tl_BlockLink(L int) {
	vTLTotal(L, func(b []byte) error { var x LiteServerBlockLink; return tl.Unmarshal(bytes.NewReader(b), &x) })
}

// MarshalTL of a mode-conditional type with arbitrary mode bits and EMPTY optionals never panics
func VH_C08_tl_marshal_modes() {
	var x LiteServerRunMethodResultC
	x.Mode = zzvrt.NondetU32("mode")
	_, err := x.MarshalTL()
	zzvrt.Cover("ok", err == nil)
}
