//go:build verif

package liteclient

import (
	"crypto/sha256"
	"net"
	"time"

	"github.com/tonkeeper/tongo/zzvrt"
)

// vConn is a net.Conn over a fixed server->client byte stream: Read hands out whatever is asked for
// and available (like a socket whose peer has already sent everything), Write collects.
type vConn struct {
	in       []byte
	consumed int
	out      []byte
}

func (c *vConn) Read(b []byte) (int, error) {
	n := copy(b, c.in[c.consumed:])
	c.consumed += n
	return n, nil
}
func (c *vConn) Write(b []byte) (int, error)        { c.out = append(c.out, b...); return len(b), nil }
func (c *vConn) Close() error                       { return nil }
func (c *vConn) LocalAddr() net.Addr                { return nil }
func (c *vConn) RemoteAddr() net.Addr               { return nil }
func (c *vConn) SetDeadline(t time.Time) error      { return nil }
func (c *vConn) SetReadDeadline(t time.Time) error  { return nil }
func (c *vConn) SetWriteDeadline(t time.Time) error { return nil }

// The handshake takes from the connection EXACTLY the server's confirmation frame (an empty packet:
// 4 + 64 bytes) and leaves every byte the server sent after it (`extra` arbitrary bytes, e.g. the
// beginning of the next frame, delivered in the same segment) for the packet reader that is
// started afterwards; the request written is 256 bytes: address hash | our public key | hash of the
// parameters | encrypted parameters.  Receiving key stream arbitrary; AES-CTR ideal.
func VH_C11_handshake_consumes(extra int) {
	ks := zzvrt.NondetBytes("rx-keystream", 68)
	confirm := Packet{}
	for i := 0; i < 32; i++ {
		confirm.nonce[i] = zzvrt.NondetByte("nonce")
	}
	frame := confirm.marshal()
	zzvrt.Assert("confirmation-is-68-bytes", len(frame) == 68)
	wire := make([]byte, 0, 68+extra)
	for i := 0; i < len(frame) && i < 68; i++ {
		wire = append(wire, frame[i]^ks[i])
	}
	wire = append(wire, zzvrt.NondetBytes("next-frame-bytes", extra)...)
	conn := &vConn{in: wire}
	econn := &encryptedConn{cipher: &vStream{ks: zzvrt.NondetBytes("tx-keystream", 8)}, decipher: &vStream{ks: ks}, conn: conn}
	var p params
	for i := 0; i < len(p); i++ {
		p[i] = zzvrt.NondetByte("params")
	}
	keys := x25519Keys{public: zzvrt.NondetBytes("public", 32), shared: zzvrt.NondetBytes("shared", 32)}
	addr := Address{pubkey: zzvrt.NondetBytes("server-key", 32)}
	err := econn.handshake(addr, p, keys)
	zzvrt.Assert("handshake-ok", err == nil)
	zzvrt.Assert("consumed-exactly-the-confirmation", conn.consumed == 68)
	zzvrt.Assert("request-is-256-bytes", len(conn.out) == 256)
	same := len(conn.out) == 256
	for i := 0; i < 32 && 32+i < len(conn.out); i++ {
		same = zzvrt.And(same, conn.out[32+i] == keys.public[i])
	}
	zzvrt.Assert("request-carries-our-public-key", same)
	zzvrt.Cover("reached", err == nil)
	zzvrt.ObserveInt("consumed", conn.consumed)
}

// Session parameter layout (ADNL TCP): 160 random bytes = rx key (32) | tx key (32) | rx nonce (16) |
// tx nonce (16) | padding (64); the accessors return exactly those byte ranges, and hash() is the
// SHA-256 of all 160 bytes.
func VH_C11_params_layout() {
	var p params
	for i := 0; i < len(p); i++ {
		p[i] = zzvrt.NondetByte("params")
	}
	eq := func(got []byte, from, to int) bool {
		ok := len(got) == to-from
		for i := 0; i < len(got) && from+i < to; i++ {
			ok = zzvrt.And(ok, got[i] == p[from+i])
		}
		return ok
	}
	zzvrt.Assert("rx-key", eq(p.rxKey(), 0, 32))
	zzvrt.Assert("tx-key", eq(p.txKey(), 32, 64))
	zzvrt.Assert("rx-nonce", eq(p.rxNonce(), 64, 80))
	zzvrt.Assert("tx-nonce", eq(p.txNonce(), 80, 96))
	zzvrt.Assert("padding", eq(p.padding(), 96, 160))
	want := sha256.Sum256(p[:])
	got := p.hash()
	same := len(got) == 32
	for i := 0; i < 32 && i < len(got); i++ {
		same = zzvrt.And(same, got[i] == want[i])
	}
	zzvrt.Assert("hash-of-all-160-bytes", same)
	zzvrt.Cover("reached", true)
}
