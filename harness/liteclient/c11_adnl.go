//go:build verif

package liteclient

import (
	"bytes"
	"crypto/sha256"

	"github.com/tonkeeper/tongo/zzvrt"
)

// vStream is a cipher.Stream whose keystream is arbitrary: XORKeyStream consumes it continuously.
type vStream struct {
	ks  []byte
	pos int
}

func (s *vStream) XORKeyStream(dst, src []byte) {
	for i := 0; i < len(src); i++ {
		dst[i] = src[i] ^ s.ks[s.pos]
		s.pos++
	}
}

func vPacket(n int) Packet {
	p := Packet{Payload: zzvrt.NondetBytes("payload", n)}
	for i := 0; i < 32; i++ {
		p.nonce[i] = zzvrt.NondetByte("nonce")
	}
	return p
}

// frame layout: LE32(n+64) | nonce | payload | sha256(nonce|payload), and ParsePacket inverts marshal
// through a pair of continuous key streams (what the sender XORs, the receiver XORs away).
func VH_C11_frame_roundtrip(n int) {
	p := vPacket(n)
	b := p.marshal()
	zzvrt.Assert("frame-length", len(b) == n+68)
	ln := uint32(b[0]) | uint32(b[1])<<8 | uint32(b[2])<<16 | uint32(b[3])<<24
	zzvrt.Assert("length-field", int(ln) == n+64)
	for i := 0; i < 32; i++ {
		zzvrt.Assert("nonce-bytes", b[4+i] == p.nonce[i])
	}
	for i := 0; i < n; i++ {
		zzvrt.Assert("payload-bytes", b[36+i] == p.Payload[i])
	}
	msg := make([]byte, 0, 32+n)
	msg = append(msg, p.nonce[:]...)
	msg = append(msg, p.Payload...)
	sum := sha256.Sum256(msg)
	for i := 0; i < 32; i++ {
		zzvrt.Assert("checksum-bytes", b[36+n+i] == sum[i])
	}
	// encrypt with the sender's stream, decrypt with an identical receiver stream
	ks := zzvrt.NondetBytes("ks", n+68)
	tx := &vStream{ks: ks}
	wire := make([]byte, len(b))
	tx.XORKeyStream(wire, b)
	rx := &vStream{ks: ks}
	q, err := ParsePacket(bytes.NewReader(wire), rx)
	zzvrt.Assert("parse-ok", err == nil)
	zzvrt.Assert("payload-length", len(q.Payload) == n)
	for i := 0; i < n; i++ {
		zzvrt.Assert("payload-recovered", i >= len(q.Payload) || q.Payload[i] == p.Payload[i])
	}
	zzvrt.Assert("nonce-recovered", q.nonce == p.nonce)
	zzvrt.Assert("stream-advanced", rx.pos == n+68)
	zzvrt.Cover("ok", err == nil)
	zzvrt.ObserveBool("err", err != nil)
}

// a frame whose nonce, payload or checksum byte at position pos (>= 4) was altered in transit is
// never delivered as a valid packet (ideal hash: collision freedom)
func VH_C11_corrupt_byte(n int, pos int) {
	p := vPacket(n)
	b := p.marshal()
	delta := zzvrt.NondetByte("delta")
	zzvrt.Assume(delta != 0)
	b[pos] ^= delta
	ks := make([]byte, n+68) // the XOR stream is transparent to a bit flip: identity stream w.l.o.g.
	_, err := ParsePacket(bytes.NewReader(b), &vStream{ks: ks})
	zzvrt.Assert("corrupted-frame-rejected", err != nil)
	zzvrt.Cover("rejected", err != nil)
}

// a truncated stream never yields a packet
func VH_C11_truncated(n int, keep int) {
	p := vPacket(n)
	b := p.marshal()
	ks := make([]byte, n+68)
	_, err := ParsePacket(bytes.NewReader(b[:keep]), &vStream{ks: ks})
	zzvrt.Assert("truncated-frame-rejected", err != nil)
}

// the length field is accepted only in 64..8MiB: every other 32-bit value is rejected before anything
// is allocated or read
func VH_C11_length_bounds() {
	var hdr [4]byte
	l := zzvrt.NondetU32("len")
	zzvrt.Assume(l < 64 || l > 8<<20)
	hdr[0], hdr[1], hdr[2], hdr[3] = byte(l), byte(l>>8), byte(l>>16), byte(l>>24)
	ks := make([]byte, 4)
	zzvrt.AllocLimit(8)
	_, err := ParsePacket(bytes.NewReader(hdr[:]), &vStream{ks: ks})
	zzvrt.Assert("bad-length-rejected", err != nil)
	zzvrt.Cover("too-small", l == 63)
	zzvrt.Cover("too-big", l == 8<<20+1)
}

// two packets through one pair of streams: the receiver must continue the key stream where the
// previous packet ended (a receiver restarting the stream per packet would fail here)
func VH_C11_two_packets(n1 int, n2 int) {
	p1 := vPacket(n1)
	p2 := vPacket(n2)
	total := n1 + n2 + 136
	ks := zzvrt.NondetBytes("ks", total)
	tx := &vStream{ks: ks}
	b1, b2 := p1.marshal(), p2.marshal()
	wire := make([]byte, total)
	tx.XORKeyStream(wire[:len(b1)], b1)
	tx.XORKeyStream(wire[len(b1):], b2)
	r := bytes.NewReader(wire)
	rx := &vStream{ks: ks}
	q1, err1 := ParsePacket(r, rx)
	q2, err2 := ParsePacket(r, rx)
	zzvrt.Assert("both-parsed", err1 == nil && err2 == nil)
	zzvrt.Assert("lengths", len(q1.Payload) == n1 && len(q2.Payload) == n2)
	for i := 0; i < n1; i++ {
		zzvrt.Assert("first-payload", i >= len(q1.Payload) || q1.Payload[i] == p1.Payload[i])
	}
	for i := 0; i < n2; i++ {
		zzvrt.Assert("second-payload", i >= len(q2.Payload) || q2.Payload[i] == p2.Payload[i])
	}
	zzvrt.Cover("ok", err1 == nil && err2 == nil)
}

// MagicType = LE32 of the first four payload bytes (0 for shorter payloads)
func VH_C11_magic(n int) {
	p := vPacket(n)
	m := p.MagicType()
	if n < 4 {
		zzvrt.Assert("short", m == 0)
	} else {
		zzvrt.Assert("le32", m == uint32(p.Payload[0])|uint32(p.Payload[1])<<8|uint32(p.Payload[2])<<16|uint32(p.Payload[3])<<24)
	}
}
