//go:build verif

package liteclient

import (
	"github.com/tonkeeper/tongo/ton"
	"github.com/tonkeeper/tongo/zzvrt"
)

// ADNL address text (base32 of 0x2d | 32 bytes | crc16, first character dropped, lower case): every
// value of the symbolic byte at position pos (other bytes fixed) prints to 55 characters that parse
// back to the same address, with and without the ".adnl" suffix.
func VH_C17_adnl_roundtrip(pos int) {
	var a ton.Bits256
	for i := 0; i < 32; i++ {
		a[i] = byte(0x3b + 13*i)
	}
	a[pos] = zzvrt.NondetByte("byte")
	s := ADNLAddressToBase32(a)
	zzvrt.Assert("55-characters", len(s) == 55)
	got, err := ParseADNLAddress(s)
	zzvrt.Assert("parses", err == nil)
	zzvrt.Assert("same-address", got == a)
	got2, err := ParseADNLAddress(s + ".adnl")
	zzvrt.Assert("parses-with-suffix", err == nil && got2 == a)
	zzvrt.Cover("ok", err == nil)
	zzvrt.ObserveBool("err", err != nil)
}
