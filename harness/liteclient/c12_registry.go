//go:build verif

package liteclient

import "github.com/tonkeeper/tongo/zzvrt"

func vQueryID(name string) queryID {
	var id queryID
	for i := 0; i < 32; i++ {
		id[i] = zzvrt.NondetByte(name)
	}
	return id
}

// One step of the reader: from a registry with n pending queries (distinct symbolic ids, every reply
// channel empty -- the invariant established by registerCallback), an arbitrary packet payload of P
// bytes is processed.  The answer goes to exactly the channel registered under payload[4:36], with
// exactly the TL `bytes` content that follows; the entry is removed; nothing else is delivered; no
// send can block; nothing panics.
func VH_C12_processAnswer(n int, P int) {
	c := &Client{queries: make(map[queryID]chan []byte)}
	var ids [3]queryID
	var chans [3]chan []byte
	for i := 0; i < n; i++ {
		ids[i] = vQueryID("id")
		for j := 0; j < i; j++ {
			zzvrt.Assume(ids[i] != ids[j])
		}
		chans[i] = c.registerCallback(ids[i])
	}
	payload := zzvrt.NondetBytes("payload", P)
	snap := make([]byte, P)
	copy(snap, payload)
	err := c.processQueryAnswer(Packet{Payload: payload})

	// specification of the framing: 4 bytes tag, 32 bytes id, TL bytes (1-byte or 0xfe + 3-byte length)
	specOK := false
	var specData []byte
	which := -1
	if P >= 37 {
		var pid queryID
		copy(pid[:], snap[4:36])
		for i := 0; i < n; i++ {
			if ids[i] == pid {
				which = i
			}
		}
		first := int(snap[36])
		if first < 254 {
			if 37+first <= P {
				specOK = true
				specData = snap[37 : 37+first]
			}
		} else if first == 254 && P >= 40 {
			ln := int(snap[37]) | int(snap[38])<<8 | int(snap[39])<<16
			if 40+ln <= P {
				specOK = true
				specData = snap[40 : 40+ln]
			}
		}
	}
	delivered := 0
	for i := 0; i < n; i++ {
		delivered += len(chans[i])
	}
	if err == nil {
		zzvrt.Assert("accepted-only-well-formed-answer-for-pending-id", specOK && which >= 0)
		zzvrt.Assert("delivered-once", delivered == 1)
		for i := 0; i < n; i++ {
			if i == which {
				zzvrt.Assert("delivered-to-owner", len(chans[i]) == 1)
				got := <-chans[i]
				zzvrt.Assert("answer-length", len(got) == len(specData))
				for k := 0; k < len(specData); k++ {
					zzvrt.Assert("answer-bytes", k >= len(got) || got[k] == specData[k])
				}
			}
		}
		// the entry is gone: a duplicate answer is reported as unknown and delivered to nobody
		err2 := c.processQueryAnswer(Packet{Payload: snap})
		zzvrt.Assert("duplicate-rejected", err2 != nil)
		for i := 0; i < n; i++ {
			zzvrt.Assert("duplicate-not-delivered", len(chans[i]) == 0)
		}
	} else {
		zzvrt.Assert("nothing-delivered-on-error", delivered == 0)
		zzvrt.Assert("well-formed-answer-for-pending-id-accepted", !(specOK && which >= 0))
	}
	// registry invariant re-established: the other entries are still registered with empty channels
	for i := 0; i < n; i++ {
		if i != which {
			ch, ok := c.queries[ids[i]]
			zzvrt.Assert("others-still-registered", ok && ch == chans[i] && len(ch) == 0)
		}
	}
	zzvrt.Cover("accepted", err == nil)
	zzvrt.Cover("accepted-long-form", err == nil && P >= 40 && snap[36] == 254)
	zzvrt.Cover("unknown-id", err != nil && specOK)
	zzvrt.ObserveBool("err", err != nil)
	zzvrt.ObserveInt("delivered", delivered)
}

// decodeLength / encodeLength agree with the TL length prefix for every length below 2^24 and every buffer
func VH_C12_lengthCodec() {
	n := zzvrt.NondetInt("n")
	zzvrt.Assume(0 <= n && n < 1<<24)
	enc := encodeLength(n)
	if n < 254 {
		zzvrt.Assert("short-form", len(enc) == 1 && int(enc[0]) == n)
	} else {
		zzvrt.Assert("long-form", len(enc) == 4 && enc[0] == 254 && int(enc[1])|int(enc[2])<<8|int(enc[3])<<16 == n)
	}
	buf := make([]byte, 0, 8)
	buf = append(buf, enc...)
	buf = append(buf, 0xAA)
	got, rest, err := decodeLength(buf)
	zzvrt.Assert("decode", err == nil && got == n && len(rest) == 1 && rest[0] == 0xAA)
	zzvrt.Cover("boundary-254", n == 254)
	zzvrt.ObserveInt("got", got)
}

// decodeLength never panics on arbitrary (short) buffers
func VH_C12_decodeLength_total(L int) {
	b := zzvrt.NondetBytes("b", L)
	n, rest, err := decodeLength(b)
	if err == nil {
		zzvrt.Assert("bounds", n >= 0 && len(rest) < L)
	}
	zzvrt.Cover("ok", err == nil)
}
