//go:build verif

package boc

import (
	"crypto/sha256"

	"github.com/tonkeeper/tongo/zzvrt"
)

// ---- reference model of the TON cell representation hash (DESIGN appendix D.1) -----------------

func vPop(m int) int {
	n := 0
	for i := 0; i < 3; i++ {
		n += (m >> uint(i)) & 1
	}
	return n
}

func vLevel(m int) int {
	l := 0
	for i := 0; i < 3; i++ {
		if (m>>uint(i))&1 == 1 {
			l = i + 1
		}
	}
	return l
}

// vKid is a child of the cell under test: an ordinary leaf (mask 0) or a pruned branch with level
// mask m that stores k=popcount(m) arbitrary hashes and depths.
type vKid struct {
	cell   *Cell
	mask   int
	pruned bool
	data   []byte // full data bytes of the child cell
	stored [][]byte
	depths []int
}

func vMakeKid(name string, mask int) *vKid {
	k := &vKid{mask: mask, pruned: mask > 0}
	if !k.pruned {
		k.data = zzvrt.NondetBytes(name+"-leaf", 2)
		c := NewCell()
		_ = c.WriteBytes(k.data)
		k.cell = c
		return k
	}
	n := vPop(mask)
	k.data = []byte{1, byte(mask)}
	for i := 0; i < n; i++ {
		h := zzvrt.NondetBytes(name+"-hash", 32)
		k.stored = append(k.stored, h)
		k.data = append(k.data, h...)
	}
	for i := 0; i < n; i++ {
		d := zzvrt.NondetBytes(name+"-depth", 2)
		k.depths = append(k.depths, int(d[0])<<8|int(d[1]))
		k.data = append(k.data, d...)
	}
	c := NewCellExotic(PrunedBranchCell)
	c.mask = levelMask(mask)
	_ = c.WriteBytes(k.data)
	k.cell = c
	return k
}

// eager (branch-free) equality of two 32-byte digests
func vEq32(x, y []byte) bool {
	same := zzvrt.And(len(x) == 32, len(y) == 32)
	for b := 0; b < 32; b++ {
		same = zzvrt.And(same, x[b] == y[b])
	}
	return same
}

func vSha(b []byte) []byte {
	s := sha256.Sum256(b)
	return s[:]
}

// representation hash of the child itself (no references): d1 d2 data
func (k *vKid) own() []byte {
	d1 := byte(32 * k.mask)
	if k.pruned {
		d1 += 8
	}
	tr := []byte{d1, byte(2 * len(k.data))}
	tr = append(tr, k.data...)
	return vSha(tr)
}

func (k *vKid) hash(level int) []byte {
	if !k.pruned {
		return k.own()
	}
	idx := vPop(k.mask & ((1 << uint(level)) - 1))
	if idx < vPop(k.mask) {
		return k.stored[idx]
	}
	return k.own()
}

func (k *vKid) depth(level int) int {
	if !k.pruned {
		return 0
	}
	idx := vPop(k.mask & ((1 << uint(level)) - 1))
	if idx < vPop(k.mask) {
		return k.depths[idx]
	}
	return 0
}

// One hashing step: a cell of the given type (0 ordinary, 3 Merkle proof, 4 Merkle update) whose children
// are arbitrary leaves / pruned branches (masks m1, m2; -1 = no such child).  Its level mask is the
// one the format requires.  For every level 0..3 the hash and depth computed by newImmutableCell equal
// the specification, the depth limit is enforced exactly, and Cell.Hash / Hasher (cold, warm) agree.
func VH_C02_hash_step(ctype int, m1 int, m2 int) {
	vHashStep(ctype, []int{m1, m2})
}

// the same step for cells with three or four children and for library cells (type 2, no children)
func VH_C02_hash_step4(ctype int, m1 int, m2 int, m3 int, m4 int) {
	vHashStep(ctype, []int{m1, m2, m3, m4})
}

func vHashStep(ctype int, masks []int) {
	var kids []*vKid
	names := []string{"k1", "k2", "k3", "k4"}
	for i, m := range masks {
		if m >= 0 {
			kids = append(kids, vMakeKid(names[i], m))
		}
	}
	or := 0
	for _, k := range kids {
		or |= k.mask
	}
	merkle := ctype == 3 || ctype == 4
	mask := or
	if merkle {
		mask = or >> 1
	}
	var data []byte
	var c *Cell
	if ctype == 0 {
		data = zzvrt.NondetBytes("data", 1)
		c = NewCell()
	} else {
		data = append([]byte{byte(ctype)}, zzvrt.NondetBytes("data", 34*len(kids))...)
		c = NewCellExotic(CellType(ctype))
	}
	_ = c.WriteBytes(data)
	c.mask = levelMask(mask)
	for _, k := range kids {
		_ = c.AddRef(k.cell)
	}
	// ---- specification
	var H [][]byte
	var D []int
	tooDeep := false
	for i := 0; i <= vLevel(mask); i++ {
		if i != 0 && (mask>>uint(i-1))&1 == 0 {
			continue // not a significant level
		}
		am := mask & ((1 << uint(i)) - 1)
		d1 := byte(len(kids) + 32*am)
		if ctype != 0 {
			d1 += 8
		}
		tr := []byte{d1, byte(2 * len(data))}
		if len(H) == 0 {
			tr = append(tr, data...)
		} else {
			tr = append(tr, H[len(H)-1]...)
		}
		ci := i
		if merkle {
			ci = i + 1
		}
		depth := 0
		for _, k := range kids {
			d := k.depth(ci)
			tr = append(tr, byte(d>>8), byte(d))
			depth = zzvrt.IteInt(d > depth, d, depth)
		}
		if len(kids) > 0 {
			tooDeep = zzvrt.Or(tooDeep, depth >= 1024)
			depth++
		}
		for _, k := range kids {
			tr = append(tr, k.hash(ci)...)
		}
		H = append(H, vSha(tr))
		D = append(D, depth)
	}
	// ---- the real code
	imm, err := newImmutableCell(c, map[*Cell]*immutableCell{})
	zzvrt.Assert("depth-limit", (err != nil) == tooDeep)
	if err == nil {
		for l := 0; l <= 3; l++ {
			j := vPop(mask & ((1 << uint(l)) - 1))
			got := imm.Hash(l)
			zzvrt.Assert("hash-length", len(got) == 32)
			zzvrt.Assert("level-hash", vEq32(got, H[j]))
			zzvrt.Assert("level-depth", imm.Depth(l) == D[j])
		}
		zzvrt.Assert("level", c.Level() == vLevel(mask))
		// independence from the way the hash is requested
		h1, e1 := c.Hash()
		hs := NewHasher()
		h2, e2 := hs.Hash(c)
		h3, e3 := hs.Hash(c) // warm cache
		_, _ = c.ReadUint(3)
		_, _ = c.NextRef()
		h4, e4 := c.Hash() // after reads
		zzvrt.Assert("hash-ok", e1 == nil && e2 == nil && e3 == nil && e4 == nil)
		top := H[len(H)-1]
		zzvrt.Assert("repr-hash-cell", vEq32(h1, top))
		zzvrt.Assert("repr-hash-hasher-cold", vEq32(h2, top))
		zzvrt.Assert("repr-hash-hasher-warm", vEq32(h3, top))
		zzvrt.Assert("repr-hash-after-reads", vEq32(h4, top))
	}
	zzvrt.Cover("ok", err == nil)
	if len(kids) > 0 && or > 0 {
		zzvrt.Cover("too-deep", err != nil)
	}
	zzvrt.ObserveBool("err", err != nil)
}
