//go:build verif

package boc

import "github.com/tonkeeper/tongo/zzvrt"

// Fift-hex text form: BitStringFromFiftHex(ToFiftHex(s)) has the same length and bits, for every bit
// string of n bits (arbitrary contents, arbitrary stale bits beyond the length); the JSON form is the
// quoted Fift hex and parses back too.
func VH_C20_fift_roundtrip(n int) {
	nb := (n + 7) / 8
	buf := zzvrt.NondetBytes("bits", nb)
	s := BitString{buf: buf, cap: n, len: n}
	snap := make([]byte, nb)
	copy(snap, buf)
	txt := s.ToFiftHex()
	zzvrt.Assert("text-length", len(txt) == (n+3)/4+func() int {
		if n%4 != 0 {
			return 1
		}
		return 0
	}())
	back, err := BitStringFromFiftHex(txt)
	zzvrt.Assert("parses", err == nil && back != nil)
	if back != nil {
		zzvrt.Assert("same-length", back.len == n)
		for p := 0; p < n; p++ {
			zzvrt.Assert("same-bits", vRefBit(back.buf, p) == vRefBit(snap, p))
		}
	}
	js, err := s.MarshalJSON()
	zzvrt.Assert("json-ok", err == nil && len(js) == len(txt)+2 && js[0] == '"' && js[len(js)-1] == '"')
	var t BitString
	zzvrt.Assert("json-parses", t.UnmarshalJSON(js) == nil && t.len == n)
	for p := 0; p < n; p++ {
		zzvrt.Assert("json-same-bits", vRefBit(t.buf, p) == vRefBit(snap, p))
	}
	zzvrt.Cover("reached", true)
	zzvrt.ObserveInt("textlen", len(txt))
}

// malformed Fift hex (arbitrary characters) is an error or a value, never a panic
func VH_C20_fift_malformed(L int) {
	txt := string(zzvrt.NondetBytes("chars", L))
	bs, err := BitStringFromFiftHex(txt)
	if err == nil {
		zzvrt.Assert("bounded", bs != nil && bs.len <= 4*L)
	}
	zzvrt.Cover("rejected", err != nil)
	zzvrt.Cover("accepted", err == nil)
}

// The same round trip at the long end of the domain (up to the 1023 bits a cell can hold): the leading
// bytes follow a fixed pattern, the last two bytes (which decide the completion tag and the final hex
// digits) are arbitrary.
func VH_C20_fift_roundtrip_long(n int) {
	nb := (n + 7) / 8
	buf := make([]byte, nb)
	for i := 0; i < nb; i++ {
		buf[i] = byte(i*37 + 11)
	}
	tail := zzvrt.NondetBytes("tail", 2)
	buf[nb-2], buf[nb-1] = tail[0], tail[1]
	s := BitString{buf: buf, cap: n, len: n}
	snap := make([]byte, nb)
	copy(snap, buf)
	txt := s.ToFiftHex()
	want := (n + 3) / 4
	if n%4 != 0 {
		want++
	}
	zzvrt.Assert("text-length", len(txt) == want)
	back, err := BitStringFromFiftHex(txt)
	zzvrt.Assert("parses", err == nil && back != nil)
	if back != nil {
		zzvrt.Assert("same-length", back.len == n)
		for p := 0; p < n; p++ {
			zzvrt.Assert("same-bits", vRefBit(back.buf, p) == vRefBit(snap, p))
		}
	}
	js, err := s.MarshalJSON()
	zzvrt.Assert("json-ok", err == nil && len(js) == len(txt)+2 && js[0] == '"' && js[len(js)-1] == '"')
	var t BitString
	zzvrt.Assert("json-parses", t.UnmarshalJSON(js) == nil && t.len == n)
	for p := 0; p < n && p < t.len; p++ {
		zzvrt.Assert("json-same-bits", vRefBit(t.buf, p) == vRefBit(snap, p))
	}
	zzvrt.Cover("reached", true)
	zzvrt.ObserveInt("textlen", len(txt))
}
