//go:build verif

package boc

import "github.com/tonkeeper/tongo/zzvrt"

// ---- shared helpers ---------------------------------------------------------------------

// vRefBit is the abstraction function of BitString: bit p of the ideal bit list.
func vRefBit(buf []byte, p int) uint64 {
	return uint64((buf[p/8] >> (7 - uint(p%8))) & 1)
}

// vArbBitString returns an arbitrary BitString state satisfying the representation invariant
// 0 <= rCursor <= len <= cap <= 8*len(buf) over a buffer of nbytes arbitrary bytes, together with
// a private copy of the initial buffer contents (the ideal bit list before the operation).
func vArbBitString(nbytes int) (BitString, []byte) {
	buf := zzvrt.NondetBytes("buf", nbytes)
	snap := make([]byte, nbytes)
	copy(snap, buf)
	cp := zzvrt.NondetInt("cap")
	ln := zzvrt.NondetInt("len")
	cur := zzvrt.NondetInt("cur")
	zzvrt.Assume(0 <= cur && cur <= ln && ln <= cp && cp <= nbytes*8)
	return BitString{buf: buf, cap: cp, len: ln, rCursor: cur}, snap
}

// vPrefixIntact: bits [0,n) of s equal those of the snapshot (branch-free).
func vPrefixIntact(s *BitString, snap []byte, n int) bool {
	ok := true
	for i := 0; i < len(snap); i++ {
		k := n - 8*i // number of leading bits of byte i that belong to the prefix
		k = zzvrt.IteInt(k < 0, 0, k)
		k = zzvrt.IteInt(k > 8, 8, k)
		m := byte(uint(0xff00) >> uint(k))
		ok = zzvrt.And(ok, (s.buf[i]^snap[i])&m == 0)
	}
	return ok
}

// ---- reads ------------------------------------------------------------------------------

// ReadUint(n) from an arbitrary state == the next n bits of the ideal list, big-endian.
func VH_C06_ReadUint(n int, nbytes int) {
	s, snap := vArbBitString(nbytes)
	cur, ln := s.rCursor, s.len
	ok := cur+n <= ln
	var ref uint64
	if ok {
		for i := 0; i < n; i++ {
			ref = ref<<1 | vRefBit(snap, cur+i)
		}
	}
	got, err := s.ReadUint(n)
	zzvrt.Assert("total", (err == nil) == ok)
	if err == nil {
		zzvrt.Assert("value", got == ref)
		zzvrt.Assert("cursor", s.rCursor == cur+n)
	} else {
		zzvrt.Assert("cursor-unchanged-on-error", s.rCursor == cur)
	}
	zzvrt.Assert("len-unchanged", s.len == ln)
	zzvrt.Cover("ok", err == nil)
	zzvrt.Cover("ok-unaligned", err == nil && cur%8 == 5)
	zzvrt.Cover("short", err != nil)
	zzvrt.ObserveU64("got", got)
	zzvrt.ObserveBool("err", err != nil)
}

func VH_C06_PickUint(n int, nbytes int) {
	s, snap := vArbBitString(nbytes)
	cur, ln := s.rCursor, s.len
	ok := cur+n <= ln
	var ref uint64
	if ok {
		for i := 0; i < n; i++ {
			ref = ref<<1 | vRefBit(snap, cur+i)
		}
	}
	got, err := s.PickUint(n)
	zzvrt.Assert("total", (err == nil) == ok)
	if err == nil {
		zzvrt.Assert("value", got == ref)
	}
	zzvrt.Assert("cursor-unchanged", s.rCursor == cur)
	zzvrt.Cover("ok", err == nil)
	zzvrt.ObserveU64("got", got)
}

// ReadInt(n), n in 1..64: two's complement of the next n bits.
func VH_C06_ReadInt(n int, nbytes int) {
	s, snap := vArbBitString(nbytes)
	cur, ln := s.rCursor, s.len
	ok := cur+n <= ln
	var ref uint64
	if ok {
		for i := 0; i < n; i++ {
			ref = ref<<1 | vRefBit(snap, cur+i)
		}
		if n < 64 && (ref>>uint(n-1))&1 == 1 {
			ref |= ^uint64(0) << uint(n) // sign extension
		}
	}
	got, err := s.ReadInt(n)
	zzvrt.Assert("total", (err == nil) == ok)
	if err == nil {
		zzvrt.Assert("value", uint64(got) == ref)
		zzvrt.Assert("cursor", s.rCursor == cur+n)
	}
	zzvrt.Cover("ok-negative", err == nil && got < 0)
	zzvrt.Cover("ok-positive", err == nil && got > 0)
	zzvrt.ObserveU64("got", uint64(got))
}

func VH_C06_ReadBit_ReadByte(nbytes int) {
	s, snap := vArbBitString(nbytes)
	cur, ln := s.rCursor, s.len
	which := zzvrt.NondetBool("which")
	if which {
		b, err := s.ReadBit()
		zzvrt.Assert("bit-total", (err == nil) == (cur+1 <= ln))
		if err == nil {
			zzvrt.Assert("bit-value", b == (vRefBit(snap, cur) == 1))
			zzvrt.Assert("bit-cursor", s.rCursor == cur+1)
		} else {
			zzvrt.Assert("bit-cursor-err", s.rCursor == cur)
		}
		zzvrt.Cover("bit-ok", err == nil)
	} else {
		b, err := s.ReadByte()
		ok := cur+8 <= ln
		zzvrt.Assert("byte-total", (err == nil) == ok)
		if err == nil {
			var ref uint64
			for i := 0; i < 8; i++ {
				ref = ref<<1 | vRefBit(snap, cur+i)
			}
			zzvrt.Assert("byte-value", uint64(b) == ref)
			zzvrt.Assert("byte-cursor", s.rCursor == cur+8)
		} else {
			zzvrt.Assert("byte-cursor-err", s.rCursor == cur)
		}
		zzvrt.Cover("byte-ok-unaligned", err == nil && cur%8 == 3)
		zzvrt.Cover("byte-ok-last", err == nil && cur+8 == nbytes*8)
	}
}

func VH_C06_ReadBytes(k int, nbytes int) {
	s, snap := vArbBitString(nbytes)
	cur, ln := s.rCursor, s.len
	ok := cur+8*k <= ln
	got, err := s.ReadBytes(k)
	zzvrt.Assert("total", (err == nil) == ok)
	if err == nil {
		zzvrt.Assert("len", len(got) == k)
		for j := 0; j < k; j++ {
			var ref uint64
			for i := 0; i < 8; i++ {
				ref = ref<<1 | vRefBit(snap, cur+8*j+i)
			}
			zzvrt.Assert("value", uint64(got[j]) == ref)
		}
		zzvrt.Assert("cursor", s.rCursor == cur+8*k)
	} else {
		zzvrt.Assert("cursor-err", s.rCursor == cur)
	}
	zzvrt.Cover("ok-unaligned", err == nil && cur%8 == 1)
	zzvrt.Cover("ok-aligned", err == nil && cur%8 == 0)
}

// ReadBits(n): the returned string holds exactly the next n bits, is fully written (len == n),
// and appending to it afterwards does not disturb those bits.
func VH_C06_ReadBits(n int, nbytes int) {
	s, snap := vArbBitString(nbytes)
	cur, ln := s.rCursor, s.len
	ok := cur+n <= ln
	got, err := s.ReadBits(n)
	zzvrt.Assert("total", (err == nil) == ok)
	if err == nil {
		zzvrt.Assert("len", got.len == n && got.rCursor == 0)
		for i := 0; i < n; i++ {
			zzvrt.Assert("bit", vRefBit(got.buf, i) == vRefBit(snap, cur+i))
		}
		zzvrt.Assert("cursor", s.rCursor == cur+n)
	} else {
		zzvrt.Assert("cursor-err", s.rCursor == cur)
	}
	zzvrt.Cover("ok-aligned-partial-byte", err == nil && cur%8 == 0 && n%8 != 0)
	zzvrt.Cover("ok-unaligned", err == nil && cur%8 == 6)
}

func VH_C06_Skip(nbytes int) {
	s, _ := vArbBitString(nbytes)
	cur, ln := s.rCursor, s.len
	n := zzvrt.NondetInt("n")
	zzvrt.Assume(n >= 0 && n <= 4096)
	err := s.Skip(n)
	zzvrt.Assert("total", (err == nil) == (cur+n <= ln))
	if err == nil {
		zzvrt.Assert("cursor", s.rCursor == cur+n)
	} else {
		zzvrt.Assert("cursor-err", s.rCursor == cur)
	}
	zzvrt.Cover("ok", err == nil && n > 0)
}

func VH_C06_ReadUnary(nbytes int) {
	s, snap := vArbBitString(nbytes)
	cur, ln := s.rCursor, s.len
	// reference: number of leading ones from cur, terminated by a zero inside [cur,len)
	ones := 0
	found := false
	for p := 0; p < nbytes*8; p++ {
		if p >= cur && p < ln && !found {
			if vRefBit(snap, p) == 1 {
				ones++
			} else {
				found = true
			}
		}
	}
	got, err := s.ReadUnary()
	zzvrt.Assert("total", (err == nil) == found)
	if err == nil {
		zzvrt.Assert("value", int(got) == ones)
		zzvrt.Assert("cursor", s.rCursor == cur+ones+1)
	}
	zzvrt.Cover("ok-3", err == nil && got == 3)
	zzvrt.Cover("unterminated", err != nil && ln > cur)
}

// ---- writes -----------------------------------------------------------------------------

// WriteUint(v,n) from an arbitrary state (arbitrary bits beyond len): appends the low n bits of
// v big-endian when they fit, otherwise errors; bits [0,len0) are never disturbed.
func VH_C06_WriteUint(n int, nbytes int) {
	s, snap := vArbBitString(nbytes)
	ln, cp := s.len, s.cap
	v := zzvrt.NondetU64("v")
	err := s.WriteUint(v, n)
	fits := ln+n <= cp
	zzvrt.Assert("total", (err == nil) == fits)
	zzvrt.Assert("prefix-intact", vPrefixIntact(&s, snap, ln))
	if err == nil {
		zzvrt.Assert("len", s.len == ln+n)
		for i := 0; i < n; i++ {
			zzvrt.Assert("bit", vRefBit(s.buf, ln+i) == (v>>uint(n-1-i))&1)
		}
	}
	zzvrt.Assert("cap-unchanged", s.cap == cp)
	zzvrt.Cover("ok-unaligned", err == nil && ln%8 == 3)
	zzvrt.Cover("overflow", err != nil)
}

// WriteInt(v,n) for v in the two's-complement range of n bits, then the bits are the n-bit
// two's complement of v.
func VH_C06_WriteInt(n int, nbytes int) {
	s, snap := vArbBitString(nbytes)
	ln, cp := s.len, s.cap
	v := zzvrt.NondetI64("v")
	if n < 64 {
		zzvrt.Assume(v >= -(int64(1)<<uint(n-1)) && v < int64(1)<<uint(n-1))
	}
	err := s.WriteInt(v, n)
	fits := ln+n <= cp
	zzvrt.Assert("total", (err == nil) == fits)
	zzvrt.Assert("prefix-intact", vPrefixIntact(&s, snap, ln))
	if err == nil {
		zzvrt.Assert("len", s.len == ln+n)
		for i := 0; i < n; i++ {
			zzvrt.Assert("bit", vRefBit(s.buf, ln+i) == (uint64(v)>>uint(n-1-i))&1)
		}
	}
	zzvrt.Cover("ok-negative", err == nil && v < 0)
	zzvrt.Cover("ok-min", err == nil && n < 64 && v == -(int64(1)<<uint(n-1)))
}

func VH_C06_WriteBit(nbytes int) {
	s, snap := vArbBitString(nbytes)
	ln, cp := s.len, s.cap
	b := zzvrt.NondetBool("b")
	err := s.WriteBit(b)
	zzvrt.Assert("total", (err == nil) == (ln+1 <= cp))
	zzvrt.Assert("prefix-intact", vPrefixIntact(&s, snap, ln))
	if err == nil {
		zzvrt.Assert("len", s.len == ln+1)
		zzvrt.Assert("bit", (vRefBit(s.buf, ln) == 1) == b)
	} else {
		zzvrt.Assert("len-err", s.len == ln)
	}
	zzvrt.Cover("ok-clear-over-garbage", err == nil && !b && vRefBit(snap, ln) == 1)
	zzvrt.Cover("full", err != nil)
}

func VH_C06_WriteBytes(k int, nbytes int) {
	s, snap := vArbBitString(nbytes)
	ln, cp := s.len, s.cap
	data := zzvrt.NondetBytes("data", k)
	err := s.WriteBytes(data)
	zzvrt.Assert("total", (err == nil) == (ln+8*k <= cp))
	zzvrt.Assert("prefix-intact", vPrefixIntact(&s, snap, ln))
	if err == nil {
		zzvrt.Assert("len", s.len == ln+8*k)
		for i := 0; i < 8*k; i++ {
			zzvrt.Assert("bit", vRefBit(s.buf, ln+i) == vRefBit(data, i))
		}
	}
	zzvrt.Cover("ok-unaligned", err == nil && ln%8 == 7)
}

// WriteUnary(n) then ReadUnary gives n back; the bits are n ones and a zero.
func VH_C06_WriteUnary(nbytes int) {
	s, snap := vArbBitString(nbytes)
	ln, cp := s.len, s.cap
	n := zzvrt.NondetInt("n")
	zzvrt.Assume(n >= 0 && n <= 70)
	err := s.WriteUnary(uint(n))
	zzvrt.Assert("total", (err == nil) == (ln+n+1 <= cp))
	zzvrt.Assert("prefix-intact", vPrefixIntact(&s, snap, ln))
	if err == nil {
		zzvrt.Assert("len", s.len == ln+n+1)
		for p := 0; p < nbytes*8; p++ {
			if p >= ln && p < ln+n {
				zzvrt.Assert("one", vRefBit(s.buf, p) == 1)
			}
			if p == ln+n {
				zzvrt.Assert("zero", vRefBit(s.buf, p) == 0)
			}
		}
	}
	zzvrt.Cover("ok-63", err == nil && n == 63)
	zzvrt.Cover("ok-64", err == nil && n == 64)
}

// ---- bounded integers and the de Bruijn table ---------------------------------------------

func VH_C06_minBitsRequired() {
	v := zzvrt.NondetU64("v")
	ref := 0
	for i := 0; i < 64; i++ {
		if (v>>uint(i))&1 == 1 {
			ref = i + 1
		}
	}
	zzvrt.Assert("minbits", minBitsRequired(v) == ref)
	zzvrt.Cover("top", ref == 64)
}

// WriteLimUint(v, n) / ReadLimUint(n) use ceil(log2(n+1)) bits and round-trip every v <= n.
func VH_C06_LimUint(nbytes int) {
	s, _ := vArbBitString(nbytes)
	ln, cp := s.len, s.cap
	n := zzvrt.NondetInt("n")
	v := zzvrt.NondetInt("v")
	zzvrt.Assume(0 <= v && v <= n && n <= 0xffff)
	bitsN := 0
	for i := 0; i < 17; i++ {
		if (n>>uint(i))&1 == 1 {
			bitsN = i + 1
		}
	}
	err := s.WriteLimUint(v, n)
	zzvrt.Assert("total", (err == nil) == (ln+bitsN <= cp))
	if err == nil {
		zzvrt.Assert("len", s.len == ln+bitsN)
		s.rCursor = ln
		got, err2 := s.ReadLimUint(n)
		zzvrt.Assert("read-ok", err2 == nil)
		zzvrt.Assert("value", int(got) == v)
		zzvrt.Assert("cursor", s.rCursor == ln+bitsN)
	}
	zzvrt.Cover("ok-pow2", err == nil && n == 256 && v == 256)
}

// Reference slots and cursor: a cell with r references (r symbolic, 0..4), k of them already read
// (k symbolic <= r) and p of its n data bits already read (symbolic): AddRef fills the first free
// slot and refuses a fifth; NextRef hands out the references in order and then fails;
// CopyRemaining carries exactly the unread bits and the unread references in order and leaves the
// cursors of the source where they were; ResetCounters rewinds both cursors.
func VH_C06_refs_cursor(n int) {
	c := NewCell()
	bits := make([]bool, n)
	for i := 0; i < n; i++ {
		bits[i] = zzvrt.NondetBool("bit")
		_ = c.WriteBit(bits[i])
	}
	r := zzvrt.NondetInt("refs")
	zzvrt.Assume(r >= 0 && r <= 4)
	var kids [5]*Cell
	for i := 0; i < 5; i++ {
		kids[i] = NewCell()
		_ = kids[i].WriteUint(uint64(i), 8)
	}
	for i := 0; i < 4; i++ {
		if i < r {
			zzvrt.Assert("add-ref-ok", c.AddRef(kids[i]) == nil)
		}
	}
	zzvrt.Assert("refs-size", c.RefsSize() == r)
	if r == 4 {
		zzvrt.Assert("fifth-reference-refused", c.AddRef(kids[4]) != nil)
	}
	k := zzvrt.NondetInt("refs-read")
	zzvrt.Assume(k >= 0 && k <= r)
	for i := 0; i < 4; i++ {
		if i < k {
			ref, err := c.NextRef()
			zzvrt.Assert("next-ref-in-order", err == nil && ref == kids[i])
		}
	}
	p := zzvrt.NondetInt("bits-read")
	zzvrt.Assume(p >= 0 && p <= n)
	for i := 0; i < n; i++ {
		if i < p {
			b, err := c.ReadBit()
			zzvrt.Assert("read-bit", err == nil && b == bits[i])
		}
	}
	zzvrt.Assert("refs-available", c.RefsAvailableForRead() == r-k)
	c2 := c.CopyRemaining()
	zzvrt.Assert("copy-bit-count", c2.BitSize() == n-p)
	zzvrt.Assert("copy-ref-count", c2.RefsSize() == r-k)
	for i := 0; i < n; i++ {
		if i < n-p {
			b, err := c2.ReadBit()
			zzvrt.Assert("copy-bits", err == nil && b == bits[p+i])
		}
	}
	for i := 0; i < 4; i++ {
		if i < r-k {
			ref, err := c2.NextRef()
			zzvrt.Assert("copy-refs-in-order", err == nil && ref == kids[k+i])
		}
	}
	zzvrt.Assert("source-cursors-unchanged", c.BitsAvailableForRead() == n-p && c.RefsAvailableForRead() == r-k)
	for i := 0; i < 4; i++ {
		if i < r-k {
			ref, err := c.NextRef()
			zzvrt.Assert("source-continues", err == nil && ref == kids[k+i])
		}
	}
	_, err := c.NextRef()
	zzvrt.Assert("no-more-references", err != nil)
	c.ResetCounters()
	zzvrt.Assert("rewound", c.BitsAvailableForRead() == n && c.RefsAvailableForRead() == r)
	zzvrt.Cover("four-refs", r == 4)
	zzvrt.ObserveInt("left", c2.BitSize())
}
