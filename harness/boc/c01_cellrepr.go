//go:build verif

package boc

import "github.com/tonkeeper/tongo/zzvrt"

// vArbCell builds a cell with n data bits whose buffer holds ARBITRARY bytes -- including stale
// bits beyond the written length --, r (dummy) references, symbolic type 0..4 and level mask 0..7.
// Exotic cells carry their type in the first data byte (well-formedness rule of the format).
func vArbCell(n int, r int) *Cell {
	nb := (n + 7) / 8
	buf := zzvrt.NondetBytes("data", nb)
	c := &Cell{bits: BitString{buf: buf, cap: 1023, len: n}}
	c.cellType = CellType(zzvrt.NondetByte("type"))
	zzvrt.Assume(c.cellType <= MerkleUpdateCell)
	c.mask = levelMask(zzvrt.NondetByte("mask"))
	zzvrt.Assume(c.mask <= 7)
	if c.cellType != OrdinaryCell {
		zzvrt.Assume(n >= 8)
		zzvrt.Assume(buf[0] == byte(c.cellType))
	}
	for i := 0; i < r; i++ {
		c.refs[i] = NewCell()
	}
	return c
}

// C01a: the stored representation of one cell is d1 d2 data(+completion tag) exactly as the format
// prescribes (independent of stale buffer bits), and the parser inverts it.
func VH_C01_cell_repr(n int, r int) {
	c := vArbCell(n, r)
	buf := c.bits.buf
	nb := (n + 7) / 8
	repr := c.bocReprWithoutRefs(c.mask)
	zzvrt.Assert("repr-length", len(repr) == 2+nb)
	exo := byte(0)
	if c.cellType != OrdinaryCell {
		exo = 8
	}
	zzvrt.Assert("d1", repr[0] == byte(r)+exo+32*byte(c.mask))
	zzvrt.Assert("d2", int(repr[1]) == n/8+(n+7)/8)
	for i := 0; i < nb; i++ {
		want := buf[i]
		if i == nb-1 && n%8 != 0 {
			k := uint(n % 8)
			want = (buf[i] & byte(uint(0xff00)>>k)) | (1 << (7 - k)) // data bits, tag bit, zeros
		}
		zzvrt.Assert("data", repr[2+i] == want)
	}
	// a conforming serialiser appends the reference indices; the parser must give the cell back
	rec := make([]byte, 0, 2+nb+4)
	rec = append(rec, repr...)
	var idx [4]byte
	for i := 0; i < r; i++ {
		idx[i] = zzvrt.NondetByte("ref")
		rec = append(rec, idx[i])
	}
	got, refs, rest, err := deserializeCellData(rec, 1)
	zzvrt.Assert("parse-ok", err == nil)
	zzvrt.Assert("consumed", len(rest) == 0)
	zzvrt.Assert("bit-length", got.bits.len == n)
	zzvrt.Assert("type", got.cellType == c.cellType)
	zzvrt.Assert("mask", got.mask == c.mask)
	zzvrt.Assert("ref-count", len(refs) == r)
	for i := 0; i < r; i++ {
		zzvrt.Assert("ref-index", i >= len(refs) || refs[i] == int(idx[i]))
	}
	for p := 0; p < n; p++ {
		zzvrt.Assert("bits", (got.bits.buf[p/8]>>(7-uint(p%8)))&1 == (buf[p/8]>>(7-uint(p%8)))&1)
	}
	// canonical: the parsed cell re-serialises to the same record (stale bits cannot survive)
	repr2 := got.bocReprWithoutRefs(got.mask)
	zzvrt.Assert("re-repr-length", len(repr2) == len(repr))
	for i := 0; i < len(repr); i++ {
		zzvrt.Assert("re-repr", i >= len(repr2) || repr2[i] == repr[i] || i == 0)
	}
	zzvrt.Cover("exotic", c.cellType != OrdinaryCell)
	zzvrt.Cover("ordinary-masked", c.cellType == OrdinaryCell && c.mask == 5)
	if n%8 != 0 {
		zzvrt.Cover("stale-bits-present", buf[nb-1]&byte(uint(0xff)>>uint(n%8)) != 0)
	}
	zzvrt.ObserveBytes("repr", repr)
}
