//go:build verif

package boc

import "github.com/tonkeeper/tongo/zzvrt"

// vC07Input builds an arbitrary byte string of length L in the header class (pfx, s, o):
// pfx 0/1/2 = the three magic prefixes, 3 = any other 4 bytes; s = value of the size field
// (0..4 exact, 5 = any value >= 5); o = value of the offset-size byte (0..8 exact, 9 = any >= 9).
// The classes partition all byte strings of length L >= 6 (shorter ones have no class split).
func vC07Input(L, pfx, s, o int) []byte {
	buf := zzvrt.NondetBytes("in", L)
	if L < 6 {
		return buf
	}
	isReach := buf[0] == 0xb5 && buf[1] == 0xee && buf[2] == 0x9c && buf[3] == 0x72
	isLean := buf[0] == 0x68 && buf[1] == 0xff && buf[2] == 0x65 && buf[3] == 0xf3
	isLeanCrc := buf[0] == 0xac && buf[1] == 0xc3 && buf[2] == 0xa7 && buf[3] == 0x28
	var size byte
	switch pfx {
	case 0:
		zzvrt.Assume(isReach)
		size = buf[4] & 7
	case 1:
		zzvrt.Assume(isLean)
		size = buf[4]
	case 2:
		zzvrt.Assume(isLeanCrc)
		size = buf[4]
	default:
		zzvrt.Assume(!isReach && !isLean && !isLeanCrc)
		return buf
	}
	if s <= 4 {
		zzvrt.Assume(int(size) == s)
	} else {
		zzvrt.Assume(size >= 5)
	}
	if o <= 8 {
		zzvrt.Assume(int(buf[5]) == o)
	} else {
		zzvrt.Assume(buf[5] >= 9)
	}
	return buf
}

// vWalk visits the cells reachable from c; returns false if the structure is deeper than fuel
// (a cycle or a reference to a missing cell would show up here).
func vWalk(c *Cell, fuel int) bool {
	if c == nil {
		return false
	}
	if fuel == 0 {
		return false
	}
	if c.bits.len > 1023 || c.bits.len < 0 || c.bits.len > c.bits.cap || len(c.bits.buf)*8 < c.bits.len {
		return false
	}
	seenNil := false
	for i := 0; i < 4; i++ {
		r := c.refs[i]
		if r == nil {
			seenNil = true
			continue
		}
		if seenNil {
			return false // a reference after an empty slot
		}
		if !vWalk(r, fuel-1) {
			return false
		}
	}
	return true
}

// The parser on an arbitrary input of length L: no run-time panic, allocations bounded by the
// input length, and on success every returned root is a finite, well-formed cell tree.
func VH_C07_deserialize(L, pfx, s, o int) {
	buf := vC07Input(L, pfx, s, o)
	zzvrt.AllocLimit(L + 8)
	roots, err := DeserializeBoc(buf)
	if err == nil {
		zzvrt.Assert("roots-bounded", len(roots) <= L)
		for i := 0; i < len(roots); i++ {
			zzvrt.Assert("root-well-formed", vWalk(roots[i], L+1))
		}
	}
	zzvrt.Cover("ok-one-root", err == nil && len(roots) == 1)
	zzvrt.Cover("ok-two-cells", err == nil && len(roots) == 1 && roots[0].refs[0] != nil)
	zzvrt.Cover("ok-two-roots", err == nil && len(roots) == 2)
	zzvrt.Cover("rejected", err != nil)
	zzvrt.ObserveBool("err", err != nil)
	zzvrt.ObserveInt("roots", len(roots))
}

// header only (cheaper, allows longer inputs)
func VH_C07_header(L, pfx, s, o int) {
	buf := vC07Input(L, pfx, s, o)
	zzvrt.AllocLimit(L + 8)
	h, err := parseBocHeader(buf)
	if err == nil {
		zzvrt.Assert("rootlist-len", len(h.rootList) == int(h.rootCount))
		zzvrt.Assert("cellsdata-len", len(h.cellsData) == int(h.totCellsSize))
		zzvrt.Assert("counts-bounded", int(h.cellCount) <= L && int(h.rootCount) <= L)
	}
	zzvrt.Cover("ok", err == nil)
	zzvrt.Cover("ok-2roots", err == nil && h.rootCount == 2)
	zzvrt.ObserveBool("err", err != nil)
}

// one cell record on arbitrary bytes
func VH_C07_cell(L int, refSize int) {
	buf := zzvrt.NondetBytes("in", L)
	zzvrt.AllocLimit(L + 8)
	c, refs, rest, err := deserializeCellData(buf, refSize)
	if err == nil {
		zzvrt.Assert("bits", c.bits.len <= 1023 && c.bits.len <= c.bits.cap)
		zzvrt.Assert("refs", len(refs) <= 7) // more than 4 is rejected by DeserializeBoc
		zzvrt.Assert("consumed", len(rest) <= L-2)
	}
	zzvrt.Cover("ok", err == nil)
	zzvrt.Cover("ok-exotic", err == nil && c.cellType != OrdinaryCell)
	zzvrt.ObserveBool("err", err != nil)
}

// Printing terminates: one inductive step of the expansion budget of Cell.ToString.  The budget
// (65536 in ToString) is SYMBOLIC here: toStringImpl is run on a shared DAG (root -> a,a ; a -> leaf,leaf;
// 7 nodes when unfolded) with any starting budget 0..maxb.  Whatever the budget, it never goes below
// zero (a negative budget is never "== 0" again: unbounded expansion), every expanded cell costs one
// unit, and the number of printed lines is bounded by the budget spent.
func VH_C07_tostring_budget(maxb int) {
	leaf := NewCell()
	_ = leaf.WriteUint(0xab, 8)
	a := NewCell()
	_ = a.WriteUint(1, 4)
	_ = a.AddRef(leaf)
	_ = a.AddRef(leaf)
	root := NewCell()
	_ = root.AddRef(a)
	_ = root.AddRef(a)
	b := zzvrt.NondetInt("budget")
	zzvrt.Assume(b >= 0 && b <= maxb)
	budget := b
	s := root.toStringImpl("", &budget)
	lines := 0
	for i := 0; i < len(s); i++ {
		if s[i] == '\n' {
			lines++
		}
	}
	zzvrt.Assert("budget-never-negative", budget >= 0)
	zzvrt.Assert("budget-only-decreases", budget <= b)
	zzvrt.Assert("lines-bounded-by-budget-spent", lines <= 1+2*(b-budget))
	zzvrt.Assert("whole-dag-when-budget-suffices", b < 7 || lines == 7)
	zzvrt.Cover("budget-exhausted", budget == 0 && lines < 7)
	zzvrt.ObserveInt("lines", lines)
	zzvrt.ObserveInt("left", budget)
}
