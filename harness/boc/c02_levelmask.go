//go:build verif

package boc

import "github.com/tonkeeper/tongo/zzvrt"

// level-mask algebra against loop-written references, for all 2^32 masks and levels 0..32
func VH_C02_levelmask() {
	m := zzvrt.NondetU32("mask")
	lm := levelMask(m)
	level := 0
	ones := 0
	for i := 0; i < 32; i++ {
		if (m>>uint(i))&1 == 1 {
			level = i + 1
			ones++
		}
	}
	zzvrt.Assert("level", lm.Level() == level)
	zzvrt.Assert("hashindex", lm.HashIndex() == ones)
	zzvrt.Assert("hashescount", lm.HashesCount() == ones+1)
	l := zzvrt.NondetInt("l")
	zzvrt.Assume(0 <= l && l <= 32)
	var ref uint32
	for i := 0; i < 32; i++ {
		if i < l && (m>>uint(i))&1 == 1 {
			ref |= 1 << uint(i)
		}
	}
	zzvrt.Assert("apply", uint32(lm.Apply(l)) == ref)
	sig := l == 0
	for i := 0; i < 32; i++ {
		if l == i+1 && (m>>uint(i))&1 == 1 {
			sig = true
		}
	}
	zzvrt.Assert("significant", lm.IsSignificant(uint32(l)) == sig)
	zzvrt.Cover("mask7-level3", m == 7 && l == 3)
	zzvrt.Cover("insignificant", !sig)
	zzvrt.ObserveInt("level", lm.Level())
	zzvrt.ObserveU64("apply", uint64(lm.Apply(l)))
}
