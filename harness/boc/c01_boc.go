//go:build verif

package boc

import (
	"hash/crc32"

	"github.com/tonkeeper/tongo/zzvrt"
)

// A cell record written by ANOTHER conforming serialiser in "with hashes" mode (d1 bit 16): the
// descriptor bytes are followed by HashesCount(mask) stored hashes and as many 2-byte depths, then the
// data and the reference indices.  The parser must skip exactly the stored hashes/depths.
func VH_C01_cell_with_hashes(n int, r int, mask int) {
	c := vArbCell(n, r)
	zzvrt.Assume(int(c.mask) == mask)
	buf := c.bits.buf
	nb := (n + 7) / 8
	repr := c.bocReprWithoutRefs(c.mask)
	hc := 1
	for i := 0; i < 3; i++ {
		hc += (mask >> uint(i)) & 1
	}
	rec := []byte{repr[0] | 16, repr[1]}
	rec = append(rec, zzvrt.NondetBytes("stored-hashes", 32*hc)...)
	rec = append(rec, zzvrt.NondetBytes("stored-depths", 2*hc)...)
	rec = append(rec, repr[2:]...)
	var idx [4]byte
	for i := 0; i < r; i++ {
		idx[i] = zzvrt.NondetByte("ref")
		rec = append(rec, idx[i])
	}
	got, refs, rest, err := deserializeCellData(rec, 1)
	zzvrt.Assert("parse-ok", err == nil)
	zzvrt.Assert("consumed", len(rest) == 0)
	zzvrt.Assert("bit-length", got.bits.len == n)
	zzvrt.Assert("type", got.cellType == c.cellType)
	zzvrt.Assert("mask", got.mask == c.mask)
	zzvrt.Assert("ref-count", len(refs) == r)
	for i := 0; i < r; i++ {
		zzvrt.Assert("ref-index", i >= len(refs) || refs[i] == int(idx[i]))
	}
	for p := 0; p < n; p++ {
		zzvrt.Assert("bits", (got.bits.buf[p/8]>>(7-uint(p%8)))&1 == (buf[p/8]>>(7-uint(p%8)))&1)
	}
	_ = nb
	zzvrt.Cover("reached", true)
}

func vChainCell(i int, sym bool) *Cell {
	c := NewCell()
	if sym {
		for b := 0; b < 9; b++ {
			_ = c.WriteBit(zzvrt.NondetBool("data"))
		}
	}
	_ = c.WriteUint(uint64(i), 16)
	return c
}

func vSameTree(a, b *Cell, fuel int) bool {
	if a == nil || b == nil {
		return a == nil && b == nil
	}
	if fuel == 0 || a.bits.len != b.bits.len || a.cellType != b.cellType || a.mask != b.mask {
		return false
	}
	ok := true
	for p := 0; p < a.bits.len; p++ {
		ok = zzvrt.And(ok, vRefBit(a.bits.buf, p) == vRefBit(b.bits.buf, p))
	}
	for i := 0; i < 4; i++ {
		ok = zzvrt.And(ok, vSameTree(a.refs[i], b.refs[i], fuel-1))
	}
	return ok
}

// Whole-BOC round trip for a chain of k cells (the cell-count boundaries 255/256/257 of the
// reference width are concrete chains; small chains carry symbolic data), all eight option
// combinations symbolic: the parsed root is structurally identical, one root, and a second
// serialisation of an equal tree gives identical bytes.
func VH_C01_boc_chain(k int, sym bool) {
	cells := make([]*Cell, k)
	for i := k - 1; i >= 0; i-- {
		cells[i] = vChainCell(i, sym)
		if i+1 < k {
			_ = cells[i].AddRef(cells[i+1])
		}
	}
	idx, crc, cache := zzvrt.NondetBool("idx"), zzvrt.NondetBool("crc"), zzvrt.NondetBool("cache")
	b, err := SerializeBoc(cells[0], idx, crc, cache, 0)
	zzvrt.Assert("serialise-ok", err == nil)
	roots, err := DeserializeBoc(b)
	zzvrt.Assert("parse-ok", err == nil && len(roots) == 1)
	if err == nil && len(roots) == 1 {
		zzvrt.Assert("same-tree", vSameTree(roots[0], cells[0], k+1))
		// canonical: serialising the parsed tree again gives the same bytes
		b2, err := SerializeBoc(roots[0], idx, crc, cache, 0)
		zzvrt.Assert("reserialise-ok", err == nil && len(b2) == len(b))
		same := true
		for i := 0; i < len(b) && i < len(b2); i++ {
			same = zzvrt.And(same, b[i] == b2[i])
		}
		zzvrt.Assert("canonical-bytes", same)
	}
	zzvrt.Cover("with-index-and-crc", idx && crc)
	zzvrt.ObserveInt("len", len(b))
}

// A diamond: the root references two cells that both reference one shared leaf, plus a twin leaf
// with EQUAL contents in a different object: shared and equal sub-trees are stored once.
func VH_C01_boc_sharing() {
	leaf := vChainCell(7, false) // concrete: with a symbolic leaf the de-duplication (hash-keyed map) is symbolic and solver-time dependent
	twin := NewCell()
	ts := leaf.bits.Copy()
	_ = twin.WriteBitString(ts)
	l, r := vChainCell(1, false), vChainCell(2, false)
	_ = l.AddRef(leaf)
	_ = r.AddRef(twin)
	root := vChainCell(0, true)
	_ = root.AddRef(l)
	_ = root.AddRef(r)
	b, err := SerializeBoc(root, false, false, false, 0)
	zzvrt.Assert("serialise-ok", err == nil)
	h, err := parseBocHeader(b)
	zzvrt.Assert("header-ok", err == nil)
	if err == nil {
		zzvrt.Assert("equal-leaves-stored-once", h.cellCount == 4)
	}
	roots, err := DeserializeBoc(b)
	zzvrt.Assert("parse-ok", err == nil && len(roots) == 1)
	if err == nil && len(roots) == 1 {
		zzvrt.Assert("same-tree", vSameTree(roots[0], root, 4))
		zzvrt.Assert("shared-object-after-parse", roots[0].refs[0].refs[0] == roots[0].refs[1].refs[0])
	}
	zzvrt.Cover("reached", true)
}

func vBE(v int, n int) []byte {
	out := make([]byte, n)
	for i := 0; i < n; i++ {
		out[n-1-i] = byte(v >> (8 * uint(i)))
	}
	return out
}

// A bag of cells written by ANOTHER conforming serialiser, laid out by hand from the TL-B definition
// (crypto/tl/boc.tlb): variant 0 = serialized_boc#b5ee9c72 (flag bits symbolic, explicit root list),
// 1 = serialized_boc_idx#68ff65f3, 2 = serialized_boc_idx_crc32c#acc3a728 (both: index always
// present, exactly one root which is cell 0, NO root list).  size = width of cell indices (1..4),
// off = width of offsets (1..8).  shape 0: chain root->leaf; shape 1 (variant 0 only): two roots
// listed in the order [1, 0] that share one leaf.
func VH_C01_foreign_boc(variant int, size int, off int, shape int) {
	leaf := vChainCell(2, true)
	a := vChainCell(0, true)
	_ = a.AddRef(leaf)
	cells := []*Cell{a, leaf}
	refs := [][]int{{1}, {}}
	roots := []int{0}
	if shape == 1 {
		b := vChainCell(1, true)
		_ = b.AddRef(leaf)
		cells = []*Cell{a, b, leaf}
		refs = [][]int{{2}, {2}, {}}
		roots = []int{1, 0}
	}
	hasIdx, hasCrc, hasCache := true, variant == 2, false
	if variant == 0 {
		hasIdx, hasCrc, hasCache = zzvrt.NondetBool("idx"), zzvrt.NondetBool("crc"), zzvrt.NondetBool("cache")
	}
	var data []byte
	var ends []int
	for i, c := range cells {
		data = append(data, c.bocReprWithoutRefs(c.mask)...)
		for _, r := range refs[i] {
			data = append(data, vBE(r, size)...)
		}
		ends = append(ends, len(data))
	}
	var out []byte
	switch variant {
	case 0:
		fl := size
		if hasIdx {
			fl |= 128
		}
		if hasCrc {
			fl |= 64
		}
		if hasCache {
			fl |= 32
		}
		out = []byte{0xb5, 0xee, 0x9c, 0x72, byte(fl)}
	case 1:
		out = []byte{0x68, 0xff, 0x65, 0xf3, byte(size)}
	default:
		out = []byte{0xac, 0xc3, 0xa7, 0x28, byte(size)}
	}
	out = append(out, byte(off))
	out = append(out, vBE(len(cells), size)...)
	out = append(out, vBE(len(roots), size)...)
	out = append(out, vBE(0, size)...)
	out = append(out, vBE(len(data), off)...)
	if variant == 0 {
		for _, r := range roots {
			out = append(out, vBE(r, size)...)
		}
	}
	if hasIdx {
		for _, e := range ends {
			if hasCache {
				e = 2*e + 1
			}
			out = append(out, vBE(e, off)...)
		}
	}
	out = append(out, data...)
	if hasCrc {
		sum := crc32.Checksum(out, crc32.MakeTable(crc32.Castagnoli))
		out = append(out, byte(sum), byte(sum>>8), byte(sum>>16), byte(sum>>24))
	}
	got, err := DeserializeBoc(out)
	zzvrt.Assert("parse-ok", err == nil)
	if err == nil {
		zzvrt.Assert("root-count", len(got) == len(roots))
		for i := 0; i < len(roots) && i < len(got); i++ {
			zzvrt.Assert("same-tree", vSameTree(got[i], cells[roots[i]], 3))
		}
		if shape == 1 && len(got) == 2 {
			zzvrt.Assert("shared-leaf-object", got[0].refs[0] == got[1].refs[0])
		}
	}
	zzvrt.Cover("parsed", err == nil)
	zzvrt.ObserveBool("err", err != nil)
	zzvrt.ObserveInt("len", len(out))
}

// Offset-width boundary of the serialiser: k cells of 976+16 data bits each in a chain; with k = 2 the
// cell data takes 2*(2+124)+1 < 256 bytes (1-byte offsets), with k = 3 more than 256 (2-byte offsets).
func VH_C01_boc_wide(k int) {
	cells := make([]*Cell, k)
	for i := k - 1; i >= 0; i-- {
		c := NewCell()
		for w := 0; w < 15; w++ {
			_ = c.WriteUint(uint64(0x0123456789abcdef)*uint64(w+i+1), 64)
		}
		_ = c.WriteUint(uint64(i), 16+i)
		cells[i] = c
		if i+1 < k {
			_ = c.AddRef(cells[i+1])
		}
	}
	idx, crc, cache := zzvrt.NondetBool("idx"), zzvrt.NondetBool("crc"), zzvrt.NondetBool("cache")
	b, err := SerializeBoc(cells[0], idx, crc, cache, 0)
	zzvrt.Assert("serialise-ok", err == nil)
	h, err := parseBocHeader(b)
	zzvrt.Assert("header-ok", err == nil)
	if err == nil {
		// every record: 2 descriptor bytes, data bytes (with completion tag when not byte aligned), 1 ref index
		tot := 0
		for i := 0; i < k; i++ {
			tot += 2 + (15*64+16+i+8)/8
			if (16+i)%8 == 0 {
				tot--
			}
			if i+1 < k {
				tot++
			}
		}
		zzvrt.Assert("cells-size", int(h.totCellsSize) == tot)
		zzvrt.Assert("cell-count", int(h.cellCount) == k)
		zzvrt.ObserveInt("tot", tot)
	}
	roots, err := DeserializeBoc(b)
	zzvrt.Assert("parse-ok", err == nil && len(roots) == 1)
	if err == nil && len(roots) == 1 {
		zzvrt.Assert("same-tree", vSameTree(roots[0], cells[0], k+1))
		b2, err := SerializeBoc(roots[0], idx, crc, cache, 0)
		zzvrt.Assert("reserialise-ok", err == nil && len(b2) == len(b))
		same := true
		for i := 0; i < len(b) && i < len(b2); i++ {
			same = zzvrt.And(same, b[i] == b2[i])
		}
		zzvrt.Assert("canonical-bytes", same)
	}
	zzvrt.Cover("with-index-and-crc", idx && crc)
	zzvrt.ObserveInt("len", len(b))
	if len(b) > 5 {
		zzvrt.ObserveInt("off-bytes", int(b[5]))
	}
}

// Cell-count boundary of the serialiser (index width 1 -> 2 bytes at 256 cells): a chain of k cells.
// With symbolic data every hash on the chain is symbolic and the hash-keyed de-duplication map did
// not finish for 255 cells in 30 min, so this instance family has NO symbolic input: it is a concrete
// execution of the real code inside the encoder (stated as such in the evidence).
// The three options are instance parameters (opts bit 0 = index, 1 = crc, 2 = cache bits).
func VH_C01_boc_count(k int, opts int) {
	cells := make([]*Cell, k)
	for i := k - 1; i >= 0; i-- {
		cells[i] = vChainCell(i, false)
		if i+1 < k {
			_ = cells[i].AddRef(cells[i+1])
		}
	}
	idx, crc, cache := opts&1 != 0, opts&2 != 0, opts&4 != 0
	b, err := SerializeBoc(cells[0], idx, crc, cache, 0)
	zzvrt.Assert("serialise-ok", err == nil)
	h, err := parseBocHeader(b)
	zzvrt.Assert("header-ok", err == nil)
	if err == nil {
		zzvrt.Assert("cell-count", int(h.cellCount) == k)
		want := 1
		if k >= 256 {
			want = 2
		}
		zzvrt.Assert("index-width", h.sizeBytes == want)
	}
	roots, err := DeserializeBoc(b)
	zzvrt.Assert("parse-ok", err == nil && len(roots) == 1)
	if err == nil && len(roots) == 1 {
		zzvrt.Assert("same-tree", vSameTree(roots[0], cells[0], k+1))
		b2, err := SerializeBoc(roots[0], idx, crc, cache, 0)
		zzvrt.Assert("reserialise-ok", err == nil && len(b2) == len(b))
		same := true
		for i := 0; i < len(b) && i < len(b2); i++ {
			same = zzvrt.And(same, b[i] == b2[i])
		}
		zzvrt.Assert("canonical-bytes", same)
	}
	zzvrt.Cover("reached", true)
	zzvrt.ObserveInt("len", len(b))
}

// leaves are concrete except in shape 2 (several symbolic leaves make the equality of their hashes,
// i.e. whether they are de-duplicated, symbolic: that did not finish)
func vLeaf(tag int, sym bool) *Cell {
	c := NewCell()
	if sym {
		for b := 0; b < 5; b++ {
			_ = c.WriteBit(zzvrt.NondetBool("leaf"))
		}
	}
	_ = c.WriteUint(uint64(tag), 8)
	return c
}

// Other DAG shapes through the whole serialiser (import, hash-keyed de-duplication, weight-based
// reordering, header) and back: shape 0 = a root with four leaves; 1 = two levels with a leaf shared
// by both inner cells; 2 = a leaf shared at two different depths (it has to be stored after every
// cell that refers to it).  The root carries symbolic bits, the other cells are concrete (symbolic leaves make the de-duplication symbolic and solver-time dependent); opts 0..7 fixes the three options, -1 makes them symbolic.
func VH_C01_boc_dag(shape int, opts int) {
	root := vChainCell(0, true)
	cells := 0
	switch shape {
	case 0:
		for i := 0; i < 4; i++ {
			_ = root.AddRef(vLeaf(10+i, false))
		}
		cells = 5
	case 1:
		x, y, z := vLeaf(21, false), vLeaf(22, false), vLeaf(23, false)
		a, b := vChainCell(1, false), vChainCell(2, false)
		_ = a.AddRef(x)
		_ = a.AddRef(y)
		_ = b.AddRef(y)
		_ = b.AddRef(z)
		_ = root.AddRef(a)
		_ = root.AddRef(b)
		cells = 6
	default:
		leaf := vLeaf(31, false)
		b := vChainCell(2, false)
		_ = b.AddRef(leaf)
		a := vChainCell(1, false)
		_ = a.AddRef(b)
		_ = root.AddRef(a)
		_ = root.AddRef(leaf)
		cells = 4
	}
	idx, crc, cache := opts&1 != 0, opts&2 != 0, opts&4 != 0 // opts 0..7: that combination; -1: symbolic
	if opts < 0 {
		idx, crc, cache = zzvrt.NondetBool("idx"), zzvrt.NondetBool("crc"), zzvrt.NondetBool("cache")
	}
	b, err := SerializeBoc(root, idx, crc, cache, 0)
	zzvrt.Assert("serialise-ok", err == nil)
	h, err := parseBocHeader(b)
	zzvrt.Assert("header-ok", err == nil)
	if err == nil {
		zzvrt.Assert("every-cell-stored-once", int(h.cellCount) == cells)
		zzvrt.Assert("one-root-at-index-0", len(h.rootList) == 1 && h.rootList[0] == 0)
	}
	roots, err := DeserializeBoc(b)
	zzvrt.Assert("parse-ok", err == nil && len(roots) == 1)
	if err == nil && len(roots) == 1 {
		zzvrt.Assert("same-tree", vSameTree(roots[0], root, 5))
		if shape == 1 {
			zzvrt.Assert("shared-leaf-is-one-object", roots[0].refs[0].refs[1] == roots[0].refs[1].refs[0])
		}
		if shape == 2 {
			zzvrt.Assert("shared-leaf-is-one-object", roots[0].refs[1] == roots[0].refs[0].refs[0].refs[0])
		}
		b2, err := SerializeBoc(roots[0], idx, crc, cache, 0)
		zzvrt.Assert("reserialise-ok", err == nil && len(b2) == len(b))
		same := true
		for i := 0; i < len(b) && i < len(b2); i++ {
			same = zzvrt.And(same, b[i] == b2[i])
		}
		zzvrt.Assert("canonical-bytes", same)
	}
	zzvrt.Cover("parsed", err == nil)
	zzvrt.ObserveInt("len", len(b))
}
