//go:build verif

package boc

import "github.com/tonkeeper/tongo/zzvrt"

// Hashing an arbitrary, possibly ill-formed, two-cell tree (as the parser can return it: any type
// byte, any level mask, any data length) gives a hash or an error -- never a run-time panic.
func VH_C08_cell_hash_total(childBytes int, rootType int) {
	child := &Cell{bits: BitString{buf: zzvrt.NondetBytes("child", childBytes), cap: 1023, len: 8 * childBytes}}
	child.cellType = CellType(zzvrt.NondetByte("ctype"))
	zzvrt.Assume(child.cellType <= MerkleUpdateCell)
	child.mask = levelMask(zzvrt.NondetByte("cmask"))
	zzvrt.Assume(child.mask <= 7)
	root := &Cell{bits: BitString{buf: zzvrt.NondetBytes("root", 2), cap: 1023, len: 16}, cellType: CellType(rootType)}
	root.mask = levelMask(zzvrt.NondetByte("rmask"))
	zzvrt.Assume(root.mask <= 7)
	root.refs[0] = child
	h, err := root.Hash()
	if err == nil {
		zzvrt.Assert("hash-size", len(h) == 32)
	}
	_, err2 := child.Hash()
	zzvrt.Cover("hashed", err == nil && err2 == nil)
	zzvrt.Cover("pruned-child", child.cellType == PrunedBranchCell && child.mask == 3)
	zzvrt.ObserveBool("err", err != nil)
}
