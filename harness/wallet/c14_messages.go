//go:build verif

package wallet

import (
	"context"
	"crypto/ed25519"
	"time"

	"github.com/tonkeeper/tongo/boc"
	"github.com/tonkeeper/tongo/tlb"
	"github.com/tonkeeper/tongo/ton"
	"github.com/tonkeeper/tongo/zzvrt"
)

// vChain is the blockchain interface with scripted, symbolic answers; it records what is sent.
type vChain struct {
	sent    [][]byte
	seqnos  [12]uint32
	errs    [12]bool
	polls   int
	state   tlb.ShardAccount
	stateEr bool
}

type vErr struct{}

func (vErr) Error() string { return "scripted error" }

func (c *vChain) GetSeqno(ctx context.Context, account ton.AccountID) (uint32, error) {
	i := c.polls
	if i > 11 {
		i = 11
	}
	c.polls++
	if c.errs[i] {
		return 0, vErr{}
	}
	return c.seqnos[i], nil
}
func (c *vChain) SendMessage(ctx context.Context, payload []byte) (uint32, error) {
	c.sent = append(c.sent, payload)
	return 0, nil
}
func (c *vChain) GetAccountState(ctx context.Context, accountID ton.AccountID) (tlb.ShardAccount, error) {
	if c.stateEr {
		return tlb.ShardAccount{}, vErr{}
	}
	return c.state, nil
}

func vSameCellBits(a, b *boc.Cell) bool {
	if a.BitSize() != b.BitSize() {
		return false
	}
	ab, bb := a.RawBitString(), b.RawBitString()
	x, y := ab.Buffer(), bb.Buffer()
	ok := true
	for p := 0; p < a.BitSize(); p++ {
		ok = zzvrt.And(ok, (x[p/8]>>(7-uint(p%8)))&1 == (y[p/8]>>(7-uint(p%8)))&1)
	}
	return ok
}

// A wallet of the given version signs k outgoing messages (symbolic bodies and modes) with symbolic
// key, seqno, expiry and sub-wallet / network id.  The external message handed to the blockchain
// verifies under the wallet key and under no other key, is addressed to the wallet itself, decodes to
// the same ids/seqno/expiry and exactly the requested messages and modes in order; more messages than
// the version allows are refused before anything is sent.
func VH_C14_send(ver int, k int) {
	priv := ed25519.NewKeyFromSeed(zzvrt.NondetBytes("seed", 32))
	pub := priv.Public().(ed25519.PublicKey)
	chain := &vChain{}
	sub := zzvrt.NondetU32("subwallet")
	net := zzvrt.NondetI32("network")
	w, err := New(priv, Version(ver), chain, WithSubWalletID(sub), WithNetworkGlobalID(net))
	zzvrt.Assert("wallet-created", err == nil)
	var msgs []RawMessage
	for i := 0; i < k; i++ {
		c := boc.NewCell()
		if k > 4 {
			// the over-the-limit instances only decide "refused before anything is sent": concrete bodies
			_ = c.WriteUint(uint64(i), 16)
			msgs = append(msgs, RawMessage{Message: c, Mode: 3})
			continue
		}
		for b := 0; b < 8; b++ {
			_ = c.WriteBit(zzvrt.NondetBool("body"))
		}
		msgs = append(msgs, RawMessage{Message: c, Mode: zzvrt.NondetByte("mode")})
	}
	seqno := zzvrt.NondetU32("seqno")
	until := zzvrt.NondetU32("until")
	err = w.RawSend(context.Background(), seqno, time.Unix(int64(until), 0), msgs, nil)
	if k > w.intWallet.maxMessageNumber() {
		zzvrt.Assert("too-many-refused", err != nil && len(chain.sent) == 0)
		zzvrt.Cover("refused", err != nil)
		return
	}
	zzvrt.Assert("send-ok", err == nil)
	zzvrt.Assert("sent-once", len(chain.sent) == 1)
	cells, err := boc.DeserializeBoc(chain.sent[0])
	zzvrt.Assert("payload-parses", err == nil && len(cells) == 1)
	ext := cells[0]
	// destination = the wallet itself, source none
	var m tlb.Message
	err = tlb.Unmarshal(ext, &m)
	zzvrt.Assert("message-decodes", err == nil && m.Info.SumType == "ExtInMsgInfo")
	zzvrt.Assert("to-self", m.Info.ExtInMsgInfo.Dest.SumType == "AddrStd" && m.Info.ExtInMsgInfo.Dest.AddrStd.Address == tlb.Bits256(w.GetAddress().Address) &&
		int32(m.Info.ExtInMsgInfo.Dest.AddrStd.WorkchainId) == w.GetAddress().Workchain && m.Info.ExtInMsgInfo.Src.SumType == "AddrNone")
	zzvrt.Assert("no-init", !m.Init.Exists)
	ext.ResetCounters()
	if Version(ver) != V5Beta {
		zzvrt.Assert("signature-verifies", VerifySignature(Version(ver), ext, pub) == nil)
		ext.ResetCounters()
		other := ed25519.PublicKey(zzvrt.NondetBytes("otherpub", 32))
		differs := false
		for i := 0; i < 32; i++ {
			differs = zzvrt.Or(differs, other[i] != pub[i])
		}
		zzvrt.Assume(differs)
		zzvrt.Assert("other-key-rejected", VerifySignature(Version(ver), ext, other) != nil)
		ext.ResetCounters()
	}
	raw, err := ExtractRawMessages(Version(ver), ext)
	zzvrt.Assert("extract-ok", err == nil)
	zzvrt.Assert("same-count", len(raw) == k)
	for i := 0; i < k && i < len(raw); i++ {
		zzvrt.Assert("same-mode", raw[i].Mode == msgs[i].Mode)
		zzvrt.Assert("same-message", raw[i].Message != nil && vSameCellBits(raw[i].Message, msgs[i].Message))
	}
	ext.ResetCounters()
	switch Version(ver) {
	case V3R1, V3R2:
		d, err := DecodeMessageV3(ext)
		zzvrt.Assert("decode-ids", err == nil && d.SubWalletId == sub && d.Seqno == seqno && d.ValidUntil == until)
	case V4R1, V4R2:
		d, err := DecodeMessageV4(ext)
		zzvrt.Assert("decode-ids", err == nil && d.SubWalletId == sub && d.Seqno == seqno && d.ValidUntil == until)
	case V5R1:
		d, err := DecodeMessageV5(ext)
		zzvrt.Assert("decode-ids", err == nil && d.SignedExternal != nil && d.SignedExternal.Seqno == seqno && d.SignedExternal.ValidUntil == until)
	case V5Beta:
		d, err := DecodeMessageV5Beta(ext)
		zzvrt.Assert("decode-ids", err == nil && d.SumType == "SignedExternal" && d.SignedExternal.Seqno == seqno && d.SignedExternal.ValidUntil == until)
	}
	zzvrt.Cover("sent", true)
	zzvrt.ObserveInt("payload-len", len(chain.sent[0]))
}
