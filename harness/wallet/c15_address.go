//go:build verif

package wallet

import (
	"crypto/ed25519"

	"github.com/tonkeeper/tongo/zzvrt"
)

func vArbPublicKey(name string) ed25519.PublicKey {
	return ed25519.PublicKey(zzvrt.NondetBytes(name, 32))
}

func VH_C15_smoke() {
	pk := vArbPublicKey("pk")
	a, err := GenerateWalletAddress(pk, V3R2, nil, 0, nil)
	zzvrt.Assert("ok", err == nil)
	zzvrt.Cover("ok", err == nil && a.Workchain == 0)
}
