//go:build verif

package wallet

import (
	"context"
	"crypto/ed25519"
	"time"

	"github.com/tonkeeper/tongo/boc"
	"github.com/tonkeeper/tongo/tlb"
	"github.com/tonkeeper/tongo/zzvrt"
)

// vSpecData writes the data cell the published wallet code expects for a fresh wallet
// (seqno 0, sub-wallet / wallet id, public key, empty dictionaries), straight from the contracts' layout.
func vSpecData(ver Version, pub ed25519.PublicKey, wc int, sub uint32, net int32) *boc.Cell {
	c := boc.NewCell()
	switch ver {
	case V3R1, V3R2:
		_ = c.WriteUint(0, 32)
		_ = c.WriteUint(uint64(sub), 32)
		_ = c.WriteBytes(pub)
	case V4R1, V4R2:
		_ = c.WriteUint(0, 32)
		_ = c.WriteUint(uint64(sub), 32)
		_ = c.WriteBytes(pub)
		_ = c.WriteBit(false)
	case V5R1:
		_ = c.WriteBit(true) // signature allowed
		_ = c.WriteUint(0, 32)
		// wallet id = context id (1 | workchain:8 | version 0:8 | subwallet 0:15) XOR network id
		ctxID := uint32(1)<<31 | uint32(uint8(wc))<<23
		_ = c.WriteUint(uint64(ctxID^uint32(net)), 32)
		_ = c.WriteBytes(pub)
		_ = c.WriteBit(false)
	case V5Beta:
		_ = c.WriteUint(0, 33)
		_ = c.WriteUint(uint64(uint32(net)), 32)
		_ = c.WriteUint(uint64(uint8(wc)), 8)
		_ = c.WriteUint(0, 8)
		_ = c.WriteUint(uint64(sub), 32)
		_ = c.WriteBytes(pub)
		_ = c.WriteBit(false)
	case HighLoadV2R2:
		_ = c.WriteUint(uint64(sub), 32)
		_ = c.WriteUint(0, 64)
		_ = c.WriteBytes(pub)
		_ = c.WriteBit(false)
	}
	return c
}

func vEq32b(x, y []byte) bool {
	same := zzvrt.And(len(x) == 32, len(y) == 32)
	for b := 0; b < 32; b++ {
		same = zzvrt.And(same, x[b] == y[b])
	}
	return same
}

// The wallet address is the representation hash of (published code for the version, data with zero
// seqno / ids / key) in the requested workchain -- identical through New().GetAddress,
// GenerateWalletAddress and the hash of GenerateStateInit -- and different when key or ids differ.
func VH_C15_address(ver int) {
	v := Version(ver)
	priv := ed25519.NewKeyFromSeed(zzvrt.NondetBytes("seed", 32))
	pub := priv.Public().(ed25519.PublicKey)
	wc := int(int8(zzvrt.NondetByte("wc")))
	sub := zzvrt.NondetU32("subwallet")
	net := zzvrt.NondetI32("network")
	w, err := New(priv, v, nil, WithWorkchain(wc), WithSubWalletID(sub), WithNetworkGlobalID(net))
	zzvrt.Assert("wallet-created", err == nil)
	a1 := w.GetAddress()
	a2, err := GenerateWalletAddress(pub, v, &net, wc, &sub)
	zzvrt.Assert("generate-ok", err == nil)
	zzvrt.Assert("same-through-both-apis", a1.Workchain == a2.Workchain && a1.Address == a2.Address)
	zzvrt.Assert("workchain", a1.Workchain == int32(wc))
	// specification: StateInit = no split depth, no special, code ref, data ref, no libraries
	spec := boc.NewCell()
	_ = spec.WriteUint(0b00110, 5)
	_ = spec.AddRef(GetCodeByVer(v))
	_ = spec.AddRef(vSpecData(v, pub, wc, sub, net))
	want, herr := spec.Hash()
	zzvrt.Assert("spec-hash-ok", herr == nil)
	zzvrt.Assert("address-is-hash-of-initial-state", vEq32b(a1.Address[:], want))
	si, err := GenerateStateInit(pub, v, &net, wc, &sub)
	zzvrt.Assert("stateinit-ok", err == nil)
	sc := boc.NewCell()
	zzvrt.Assert("stateinit-marshals", tlb.Marshal(sc, si) == nil)
	h3, _ := sc.Hash()
	zzvrt.Assert("stateinit-hash-is-address", vEq32b(h3, want))
	// published code: the code cell is the one whose hash identifies the version
	ch, _ := GetCodeByVer(v).Hash256()
	zzvrt.Assert("code-is-the-published-one", GetCodeHashByVer(v) == tlb.Bits256(ch))
	// a different key or sub-wallet id (where the version has one) gives a different address
	seed2 := zzvrt.NondetBytes("seed2", 32)
	priv2 := ed25519.NewKeyFromSeed(seed2)
	pub2 := priv2.Public().(ed25519.PublicKey)
	keyDiffers := false
	for i := 0; i < 32; i++ {
		keyDiffers = zzvrt.Or(keyDiffers, pub2[i] != pub[i])
	}
	sub2 := zzvrt.NondetU32("subwallet2")
	a3, err := GenerateWalletAddress(pub2, v, &net, wc, &sub2)
	zzvrt.Assert("generate2-ok", err == nil)
	usesSub := v != V5R1
	zzvrt.Assume(zzvrt.Or(keyDiffers, zzvrt.And(usesSub, sub2 != sub)))
	zzvrt.Assert("different-parameters-different-address", a3.Address != a1.Address)
	zzvrt.Cover("negative-workchain", wc < 0)
	zzvrt.ObserveInt("wc", int(a1.Workchain))
}

// NextMessageParams: an active account gives the stored seqno and no init; a non-existent or
// uninitialised account gives seqno 0 and the wallet's own initial state.
func VH_C15_nextparams(ver int, status int) {
	v := Version(ver)
	priv := ed25519.NewKeyFromSeed(zzvrt.NondetBytes("seed", 32))
	pub := priv.Public().(ed25519.PublicKey)
	sub := zzvrt.NondetU32("subwallet")
	w, err := New(priv, v, nil, WithSubWalletID(sub))
	zzvrt.Assert("wallet-created", err == nil)
	var st tlb.ShardAccount
	seq := zzvrt.NondetU32("stored-seqno")
	switch status {
	case 0:
		st.Account.SumType = "AccountNone"
	case 1:
		st.Account.SumType = "Account"
		st.Account.Account.Storage.State.SumType = "AccountUninit"
	case 2:
		st.Account.SumType = "Account"
		st.Account.Account.Storage.State.SumType = "AccountActive"
		data := vSpecData(v, pub, 0, sub, MainnetGlobalID)
		// overwrite the seqno field of the data layout with the stored seqno
		d2 := boc.NewCell()
		switch v {
		case V3R1, V3R2, V4R1, V4R2:
			_ = d2.WriteUint(uint64(seq), 32)
			_ = data.Skip(32)
		case V5R1:
			_ = d2.WriteBit(true)
			_ = d2.WriteUint(uint64(seq), 32)
			_ = data.Skip(33)
		case V5Beta:
			_ = d2.WriteUint(uint64(seq), 33)
			_ = data.Skip(33)
		}
		rest := data.ReadRemainingBits()
		_ = d2.WriteBitString(rest)
		st.Account.Account.Storage.State.AccountActive.StateInit.Data.Exists = true
		st.Account.Account.Storage.State.AccountActive.StateInit.Data.Value.Value = *d2
	}
	p, err := w.intWallet.NextMessageParams(st)
	zzvrt.Assert("params-ok", err == nil)
	if status == 2 {
		zzvrt.Assert("active-uses-stored-seqno", p.Seqno == seq)
		zzvrt.Assert("active-no-init", p.Init == nil)
	} else {
		zzvrt.Assert("fresh-seqno-zero", p.Seqno == 0)
		zzvrt.Assert("fresh-has-init", p.Init != nil)
		if p.Init != nil {
			sc := boc.NewCell()
			zzvrt.Assert("init-marshals", tlb.Marshal(sc, *p.Init) == nil)
			h, _ := sc.Hash()
			addr := w.GetAddress()
			zzvrt.Assert("init-hashes-to-own-address", vEq32b(h, addr.Address[:]))
		}
	}
	zzvrt.Cover("reached", true)
	zzvrt.ObserveInt("seqno", int(p.Seqno))
}

// RawSendV2 with confirmation: scripted answers of GetSeqno (error / seqno) and a symbolic clock.
// Success iff some poll before the deadline reports, without error, a seqno above the one sent.
func VH_C15_confirm(ver int) {
	v := Version(ver)
	priv := ed25519.NewKeyFromSeed(zzvrt.NondetBytes("seed", 32))
	chain := &vChain{}
	for i := 0; i < 12; i++ {
		chain.seqnos[i] = zzvrt.NondetU32("poll-seqno")
		chain.errs[i] = zzvrt.NondetBool("poll-err")
	}
	w, err := New(priv, v, chain)
	zzvrt.Assert("wallet-created", err == nil)
	seqno := zzvrt.NondetU32("seqno")
	_, err = w.RawSendV2(context.Background(), seqno, time.Unix(100, 0), nil, nil, 2*time.Second)
	zzvrt.Assert("sent", len(chain.sent) == 1)
	advanced := false
	zzvrt.Assert("polls-bounded", chain.polls <= 11)
	for i := 0; i < 12; i++ {
		if i < chain.polls {
			advanced = zzvrt.Or(advanced, zzvrt.And(!chain.errs[i], chain.seqnos[i] > seqno))
		}
	}
	if err == nil {
		zzvrt.Assert("success-only-if-seqno-advanced", advanced)
	} else {
		zzvrt.Assert("error-only-if-no-poll-saw-the-seqno-advance", !advanced)
	}
	zzvrt.Cover("confirmed", err == nil)
	zzvrt.Cover("timed-out", err != nil && chain.polls >= 1)
	zzvrt.ObserveBool("err", err != nil)
}
