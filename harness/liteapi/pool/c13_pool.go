//go:build verif

package pool

import (
	"context"
	"time"

	"github.com/tonkeeper/tongo/liteclient"
	"github.com/tonkeeper/tongo/ton"
	"github.com/tonkeeper/tongo/zzvrt"
)

// vConn is a pooled connection whose observable state is fully symbolic.
type vConn struct {
	id  int
	ok  bool
	seq uint32
	rtt int64
}

func (c *vConn) ID() int { return c.id }
func (c *vConn) MasterHead() ton.BlockIDExt {
	return ton.BlockIDExt{BlockID: ton.BlockID{Seqno: c.seq}}
}
func (c *vConn) SetMasterHead(ton.BlockIDExt)                {}
func (c *vConn) IsOK() bool                                  { return c.ok }
func (c *vConn) Client() *liteclient.Client                  { return nil }
func (c *vConn) Run(ctx context.Context, detectArchive bool) {}
func (c *vConn) IsArchiveNode() bool                         { return false }
func (c *vConn) AverageRoundTrip() time.Duration             { return time.Duration(c.rtt) }
func (c *vConn) Status() ConnStatus                          { return ConnStatus{} }

// specification: alive and at most one block behind the newest head known to the pool
func vWorking(c *vConn, max uint32) bool {
	return zzvrt.And(c.ok, max-c.seq <= 1)
}

// selection rule for pools of n connections, all (alive, seqno, rtt), arbitrary previous choice
func VH_C13_select(n int, bestPing bool) {
	var cs [4]*vConn
	p := &ConnPool{strategy: FirstWorkingConnection}
	if bestPing {
		p.strategy = BestPingStrategy
	}
	var max uint32
	for i := 0; i < n; i++ {
		cs[i] = &vConn{id: i, ok: zzvrt.NondetBool("ok"), seq: zzvrt.NondetU32("seq"), rtt: zzvrt.NondetI64("rtt")}
		p.conns = append(p.conns, cs[i])
		max = uint32(zzvrt.IteU64(cs[i].seq > max, uint64(cs[i].seq), uint64(max)))
	}
	prev := zzvrt.NondetInt("prev")
	zzvrt.Assume(prev >= 0 && prev < n)
	for i := 0; i < n; i++ {
		if prev == i {
			p.bestConn = cs[i]
		}
	}
	p.updateBest()
	chosen := p.bestConn.(*vConn)
	anyWorking := false
	for i := 0; i < n; i++ {
		anyWorking = zzvrt.Or(anyWorking, vWorking(cs[i], max))
	}
	if anyWorking {
		zzvrt.Assert("chosen-working", vWorking(chosen, max))
		for i := 0; i < n; i++ {
			if bestPing {
				zzvrt.Assert("min-rtt", zzvrt.Implies(vWorking(cs[i], max), chosen.rtt <= cs[i].rtt))
			} else {
				zzvrt.Assert("first", zzvrt.Implies(vWorking(cs[i], max), chosen.id <= cs[i].id))
			}
		}
	} else {
		zzvrt.Assert("kept", chosen.id == prev)
	}
	zzvrt.Cover("switched", chosen.id != prev)
	zzvrt.Cover("kept-none-working", !anyWorking)
	zzvrt.Cover("dead-holds-newest", anyWorking && !vWorking(cs[0], max) && cs[0].seq == max)
	zzvrt.ObserveInt("chosen", chosen.id)
}

// Wait-list protocol at critical-section granularity.  subscribe / unsubscribe / notifySubscribers all
// run under the pool lock, so they are atomic with respect to each other; a waiter's only unlocked
// actions are "receive from my channel" and "decide to leave" (success, timeout or cancellation: from
// then on it never receives again, and its deferred unsubscribe runs at some LATER step).  Bounded
// histories of `steps` steps over two waiters; step kind, waiter, seqnos and heads are symbolic.
//
// A send that finds the channel of a waiter that is still receiving full is only a transient wait (the
// waiter drains without needing the lock): the harness schedules that waiter first.  A send to the
// full channel of a waiter that has decided to leave can never complete: notifySubscribers then
// holds the read lock forever, unsubscribe and every later subscribe block on the write lock - the
// pool is blocked.  The engine reports that as the VC "would-block-send".
//   - no step blocks forever while holding the pool lock;
//   - a waiter whose target has been reported by the best connection finds a head >= target in its channel;
//   - a caller that leaves never removes somebody else's registration.
func VH_C13_waitlist(steps int) {
	p := New(BestPingStrategy)
	best := &connection{id: 0, masterHeadUpdatedCh: p.masterHeadUpdatedCh}
	best.masterHead.Seqno = zzvrt.NondetU32("head0")
	p.conns = []conn{best}
	p.bestConn = best
	var ids [2]uint64
	var chans [2]chan ton.BlockIDExt
	var want [2]uint32
	var live, registered, leaving [2]bool
	for step := 0; step < steps; step++ {
		op := zzvrt.NondetInt("op")
		who := zzvrt.NondetInt("who")
		zzvrt.Assume(op >= 0 && op <= 4 && who >= 0 && who <= 1)
		// every step draws the same inputs whatever its kind (keeps replay input order path-independent)
		wantIn, h := zzvrt.NondetU32("want"), zzvrt.NondetU32("h")
		w := 0
		if who == 1 {
			w = 1
		}
		switch op {
		case 0: // a waiter arrives: WaitMasterchainSeqno calls subscribe
			if !live[w] {
				want[w] = wantIn
				head := best.masterHead.Seqno
				id, ch := p.subscribe(want[w])
				ids[w], chans[w], live[w], leaving[w] = id, ch, true, false
				registered[w] = head < want[w]
				if !registered[w] {
					zzvrt.Assert("fast-path-has-head", len(ch) == 1)
				} else {
					_, in := p.waitList[id]
					zzvrt.Assert("registered", in)
				}
			}
		case 1: // the best connection reports a newer head; the pool loop notifies the subscribers
			zzvrt.Assume(h > best.masterHead.Seqno)
			best.masterHead.Seqno = h
			for i := 0; i < 2; i++ {
				if live[i] && registered[i] && !leaving[i] && len(chans[i]) > 0 {
					// a full channel whose owner still receives: model the transient wait by letting it drain
					<-chans[i]
				}
			}
			var upd masterHeadUpdated
			upd.Head.Seqno = h
			upd.Conn = best
			p.notifySubscribers(upd)
			for i := 0; i < 2; i++ {
				if live[i] && registered[i] && !leaving[i] && h >= want[i] {
					zzvrt.Assert("reached-target-is-in-the-channel", len(chans[i]) == 1)
				}
			}
		case 2: // a waiter takes what is in its channel (the `case head := <-ch` arm)
			if live[w] && !leaving[w] && len(chans[w]) > 0 {
				got := <-chans[w]
				if registered[w] && best.masterHead.Seqno >= want[w] {
					zzvrt.Assert("latest-head-delivered", got.Seqno >= want[w])
				}
				if got.Seqno >= want[w] {
					leaving[w] = true // success: return nil, deferred unsubscribe pending
				}
			}
		case 3: // timeout or cancellation wins the select: the waiter stops receiving
			if live[w] {
				leaving[w] = true
			}
		case 4: // the deferred p.unsubscribe(waitID) of a waiter that has left
			if live[w] && leaving[w] {
				p.unsubscribe(ids[w])
				live[w] = false
				other := 1 - w
				if live[other] && registered[other] {
					_, still := p.waitList[ids[other]]
					zzvrt.Assert("other-waiter-still-registered", still)
				}
			}
		}
	}
	zzvrt.Cover("two-waiters-registered", live[0] && live[1] && registered[0] && registered[1])
	zzvrt.Cover("left-with-full-channel", live[0] && leaving[0] && registered[0] && len(chans[0]) == 1)
	zzvrt.ObserveInt("waitlist", len(p.waitList))
}

// connection.SetMasterHead: for any sequence of reported heads the stored head is the one with the
// largest seqno seen so far (monotone, first one wins on ties), and exactly one notification per
// strict increase is published to the pool's channel, in order, carrying that head and connection.
func VH_C13_set_master_head(n int) {
	ch := make(chan masterHeadUpdated, 10)
	c := &connection{id: 7, masterHeadUpdatedCh: ch}
	c.masterHead.Seqno = zzvrt.NondetU32("start")
	best := c.masterHead.Seqno
	published := 0
	for i := 0; i < n; i++ {
		var h ton.BlockIDExt
		h.Seqno = zzvrt.NondetU32("seqno")
		h.Shard = zzvrt.NondetU64("shard")
		before := len(ch)
		c.SetMasterHead(h)
		if h.Seqno > best {
			best = h.Seqno
			published++
			zzvrt.Assert("published-on-increase", len(ch) == before+1)
			zzvrt.Assert("stored-head-is-the-new-one", c.masterHead.Seqno == h.Seqno && c.masterHead.Shard == h.Shard)
		} else {
			zzvrt.Assert("no-notification-without-increase", len(ch) == before)
		}
		zzvrt.Assert("monotone", c.MasterHead().Seqno == best)
	}
	last := uint32(0)
	for i := 0; i < published; i++ {
		u := <-ch
		zzvrt.Assert("notifications-in-increasing-order", i == 0 || u.Head.Seqno > last)
		zzvrt.Assert("notification-names-the-connection", u.Conn == c)
		last = u.Head.Seqno
	}
	zzvrt.Assert("last-notification-is-the-stored-head", published == 0 || last == best)
	zzvrt.Cover("three-increases", published == 3)
	zzvrt.ObserveInt("published", published)
}

// The waiting calls themselves (their select statements are executed; timers never fire within the
// explored step, so every explored call ends through its channel or through its cancelled context).
// which = 0: WaitMasterchainSeqno, which = 1: BestMasterchainClient.
func VH_C13_wait_calls(which int) {
	p := New(BestPingStrategy)
	best := &connection{id: 0, masterHeadUpdatedCh: p.masterHeadUpdatedCh}
	head0 := zzvrt.NondetU32("head0")
	best.masterHead.Seqno = head0
	p.conns = []conn{best}
	p.bestConn = best
	ctx, cancel := context.WithCancel(context.Background())
	cancelled := zzvrt.NondetBool("cancelled")
	if cancelled {
		cancel()
	}
	if which == 0 {
		target := zzvrt.NondetU32("target")
		zzvrt.Assume(cancelled || head0 >= target) // otherwise the call legitimately waits for its timer
		err := p.WaitMasterchainSeqno(ctx, target, time.Second)
		if head0 >= target && !cancelled {
			zzvrt.Assert("reached-seqno-returns-success", err == nil)
		}
		if head0 < target {
			zzvrt.Assert("cancelled-wait-returns-an-error", err != nil)
		}
		zzvrt.Cover("success", err == nil)
		zzvrt.Cover("error", err != nil)
	} else {
		zzvrt.Assume(cancelled || head0 > 0)
		cl, head, err := p.BestMasterchainClient(ctx)
		if head0 > 0 {
			zzvrt.Assert("initialised-connection-is-returned-at-once", err == nil && head.Seqno == head0 && cl == best.Client())
		} else {
			zzvrt.Assert("cancelled-wait-returns-an-error", err != nil)
		}
		zzvrt.Cover("success", err == nil)
		zzvrt.Cover("error", err != nil)
	}
	zzvrt.Assert("unsubscribed-on-return", len(p.waitList) == 0)
	cancel()
	zzvrt.ObserveInt("waitlist", len(p.waitList))
}
