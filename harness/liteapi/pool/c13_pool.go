//go:build verif

package pool

import (
	"context"
	"time"

	"github.com/tonkeeper/tongo/liteclient"
	"github.com/tonkeeper/tongo/ton"
	"github.com/tonkeeper/tongo/zzvrt"
)

// vConn is a pooled connection whose observable state is fully symbolic.
type vConn struct {
	id  int
	ok  bool
	seq uint32
	rtt int64
}

func (c *vConn) ID() int { return c.id }
func (c *vConn) MasterHead() ton.BlockIDExt {
	return ton.BlockIDExt{BlockID: ton.BlockID{Seqno: c.seq}}
}
func (c *vConn) SetMasterHead(ton.BlockIDExt)                {}
func (c *vConn) IsOK() bool                                  { return c.ok }
func (c *vConn) Client() *liteclient.Client                  { return nil }
func (c *vConn) Run(ctx context.Context, detectArchive bool) {}
func (c *vConn) IsArchiveNode() bool                         { return false }
func (c *vConn) AverageRoundTrip() time.Duration             { return time.Duration(c.rtt) }
func (c *vConn) Status() ConnStatus                          { return ConnStatus{} }

// specification: alive and at most one block behind the newest head known to the pool
func vWorking(c *vConn, max uint32) bool {
	return zzvrt.And(c.ok, max-c.seq <= 1)
}

// selection rule for pools of n connections, all (alive, seqno, rtt), arbitrary previous choice
func VH_C13_select(n int, bestPing bool) {
	var cs [4]*vConn
	p := &ConnPool{strategy: FirstWorkingConnection}
	if bestPing {
		p.strategy = BestPingStrategy
	}
	var max uint32
	for i := 0; i < n; i++ {
		cs[i] = &vConn{id: i, ok: zzvrt.NondetBool("ok"), seq: zzvrt.NondetU32("seq"), rtt: zzvrt.NondetI64("rtt")}
		p.conns = append(p.conns, cs[i])
		max = uint32(zzvrt.IteU64(cs[i].seq > max, uint64(cs[i].seq), uint64(max)))
	}
	prev := zzvrt.NondetInt("prev")
	zzvrt.Assume(prev >= 0 && prev < n)
	for i := 0; i < n; i++ {
		if prev == i {
			p.bestConn = cs[i]
		}
	}
	p.updateBest()
	chosen := p.bestConn.(*vConn)
	anyWorking := false
	for i := 0; i < n; i++ {
		anyWorking = zzvrt.Or(anyWorking, vWorking(cs[i], max))
	}
	if anyWorking {
		zzvrt.Assert("chosen-working", vWorking(chosen, max))
		for i := 0; i < n; i++ {
			if bestPing {
				zzvrt.Assert("min-rtt", zzvrt.Implies(vWorking(cs[i], max), chosen.rtt <= cs[i].rtt))
			} else {
				zzvrt.Assert("first", zzvrt.Implies(vWorking(cs[i], max), chosen.id <= cs[i].id))
			}
		}
	} else {
		zzvrt.Assert("kept", chosen.id == prev)
	}
	zzvrt.Cover("switched", chosen.id != prev)
	zzvrt.Cover("kept-none-working", !anyWorking)
	zzvrt.Cover("dead-holds-newest", anyWorking && !vWorking(cs[0], max) && cs[0].seq == max)
	zzvrt.ObserveInt("chosen", chosen.id)
}
