//go:build verif

package pool

import (
	"context"
	"time"

	"github.com/tonkeeper/tongo/liteclient"
	"github.com/tonkeeper/tongo/ton"
	"github.com/tonkeeper/tongo/zzvrt"
)

// vConn is a pooled connection whose observable state is fully symbolic.
type vConn struct {
	id  int
	ok  bool
	seq uint32
	rtt int64
}

func (c *vConn) ID() int { return c.id }
func (c *vConn) MasterHead() ton.BlockIDExt {
	return ton.BlockIDExt{BlockID: ton.BlockID{Seqno: c.seq}}
}
func (c *vConn) SetMasterHead(ton.BlockIDExt)                {}
func (c *vConn) IsOK() bool                                  { return c.ok }
func (c *vConn) Client() *liteclient.Client                  { return nil }
func (c *vConn) Run(ctx context.Context, detectArchive bool) {}
func (c *vConn) IsArchiveNode() bool                         { return false }
func (c *vConn) AverageRoundTrip() time.Duration             { return time.Duration(c.rtt) }
func (c *vConn) Status() ConnStatus                          { return ConnStatus{} }

// specification: alive and at most one block behind the newest head known to the pool
func vWorking(c *vConn, max uint32) bool {
	return zzvrt.And(c.ok, max-c.seq <= 1)
}

// selection rule for pools of n connections, all (alive, seqno, rtt), arbitrary previous choice
func VH_C13_select(n int, bestPing bool) {
	var cs [4]*vConn
	p := &ConnPool{strategy: FirstWorkingConnection}
	if bestPing {
		p.strategy = BestPingStrategy
	}
	var max uint32
	for i := 0; i < n; i++ {
		cs[i] = &vConn{id: i, ok: zzvrt.NondetBool("ok"), seq: zzvrt.NondetU32("seq"), rtt: zzvrt.NondetI64("rtt")}
		p.conns = append(p.conns, cs[i])
		max = uint32(zzvrt.IteU64(cs[i].seq > max, uint64(cs[i].seq), uint64(max)))
	}
	prev := zzvrt.NondetInt("prev")
	zzvrt.Assume(prev >= 0 && prev < n)
	for i := 0; i < n; i++ {
		if prev == i {
			p.bestConn = cs[i]
		}
	}
	p.updateBest()
	chosen := p.bestConn.(*vConn)
	anyWorking := false
	for i := 0; i < n; i++ {
		anyWorking = zzvrt.Or(anyWorking, vWorking(cs[i], max))
	}
	if anyWorking {
		zzvrt.Assert("chosen-working", vWorking(chosen, max))
		for i := 0; i < n; i++ {
			if bestPing {
				zzvrt.Assert("min-rtt", zzvrt.Implies(vWorking(cs[i], max), chosen.rtt <= cs[i].rtt))
			} else {
				zzvrt.Assert("first", zzvrt.Implies(vWorking(cs[i], max), chosen.id <= cs[i].id))
			}
		}
	} else {
		zzvrt.Assert("kept", chosen.id == prev)
	}
	zzvrt.Cover("switched", chosen.id != prev)
	zzvrt.Cover("kept-none-working", !anyWorking)
	zzvrt.Cover("dead-holds-newest", anyWorking && !vWorking(cs[0], max) && cs[0].seq == max)
	zzvrt.ObserveInt("chosen", chosen.id)
}

// Wait-list protocol at critical-section granularity.  subscribe / unsubscribe / notifySubscribers all
// run under the pool lock, so they are atomic with respect to each other; a waiter's only unlocked
// actions are "receive from my channel" and "give up" (unsubscribe).  Bounded histories of `steps`
// steps over two waiters, with the step kind, seqnos and heads symbolic:
//   - no step performs a channel operation that would block while the pool lock is held
//     (engine VC would-block-send / would-block-select);
//   - a waiter whose target has been reported by the best connection finds a head >= target in its channel;
//   - a registered waiter never gets the sentinel id 0 (the id returned on the fast path), so
//     unsubscribing a fast-path caller can never remove somebody else's registration.
func VH_C13_waitlist(steps int) {
	p := New(BestPingStrategy)
	best := &connection{id: 0, masterHeadUpdatedCh: p.masterHeadUpdatedCh}
	best.masterHead.Seqno = zzvrt.NondetU32("head0")
	p.conns = []conn{best}
	p.bestConn = best
	var ids [2]uint64
	var chans [2]chan ton.BlockIDExt
	var want [2]uint32
	var live, registered [2]bool
	for step := 0; step < steps; step++ {
		op := zzvrt.NondetInt("op")
		who := zzvrt.NondetInt("who")
		zzvrt.Assume(op >= 0 && op <= 3 && who >= 0 && who <= 1)
		w := 0
		if who == 1 {
			w = 1
		}
		switch op {
		case 0: // a waiter arrives
			if !live[w] {
				want[w] = zzvrt.NondetU32("want")
				head := best.masterHead.Seqno
				id, ch := p.subscribe(want[w])
				ids[w], chans[w], live[w] = id, ch, true
				if head >= want[w] {
					zzvrt.Assert("fast-path-has-head", len(ch) == 1)
					registered[w] = false
				} else {
					registered[w] = true
					zzvrt.Assert("registered-id-is-not-the-sentinel", id != 0)
					other := 1 - w
					zzvrt.Assert("ids-distinct", !(live[other] && registered[other]) || ids[other] != id)
				}
			}
		case 1: // the best connection reports a newer head; the pool loop notifies the subscribers
			h := zzvrt.NondetU32("h")
			zzvrt.Assume(h > best.masterHead.Seqno)
			best.masterHead.Seqno = h
			var upd masterHeadUpdated
			upd.Head.Seqno = h
			upd.Conn = best
			p.notifySubscribers(upd)
			for i := 0; i < 2; i++ {
				if live[i] && registered[i] && h >= want[i] {
					zzvrt.Assert("reached-target-is-in-the-channel", len(chans[i]) == 1)
				}
			}
		case 2: // a waiter takes what is in its channel
			if live[w] && len(chans[w]) > 0 {
				got := <-chans[w]
				if registered[w] && best.masterHead.Seqno >= want[w] {
					zzvrt.Assert("latest-head-delivered", got.Seqno >= want[w])
				}
			}
		case 3: // a waiter leaves (done, timed out or cancelled): `defer p.unsubscribe(waitID)`
			if live[w] {
				p.unsubscribe(ids[w])
				live[w] = false
				other := 1 - w
				if live[other] && registered[other] {
					_, still := p.waitList[ids[other]]
					zzvrt.Assert("other-waiter-still-registered", still)
				}
			}
		}
	}
	zzvrt.Cover("two-waiters-registered", live[0] && live[1] && registered[0] && registered[1])
	zzvrt.ObserveInt("waitlist", len(p.waitList))
}
