#!/usr/bin/env python3
# assemble /verif/seeded/<id>-<X>/ from the sub-agent deliverables and the confirmation / detection logs
# (one-off tool of the build session: its inputs under /tmp/mut/out and .work/ were scratch files and are gone;
#  seeded/ is the result and is what is kept)
import json, os, re, shutil
V = '/verif'
conf = {}
for l in open(f'{V}/.work/seed_confirm.txt'):
    m = re.match(r'^(C\d+)/([AB]) (.*)$', l.strip())
    if m:
        conf[(m.group(1), m.group(2))] = m.group(3)
res = {}
for l in open(f'{V}/.work/seed_results.txt'):
    m = re.match(r'^(C\d+)/([AB]) (.*)$', l.strip())
    if m:
        res[(m.group(1), m.group(2))] = m.group(3)
extra = {}
if os.path.exists(f'{V}/.work/seed_extra.txt'):
    for l in open(f'{V}/.work/seed_extra.txt'):
        m = re.match(r'^(C\d+)/([AB]) (.*)$', l.strip())
        if m:
            extra.setdefault((m.group(1), m.group(2)), []).append(m.group(3))
rows = []
for (cid, x), c in sorted(conf.items()):
    src = f'/tmp/mut/out/{cid}'
    if 'DOES-NOT-APPLY' in c:
        rows.append((cid, x, 'dropped', 'patch conflicts with a fix: commit (the fix removed the code the change relied on)', ''))
        continue
    if 'with=[FAIL]' not in c:
        rows.append((cid, x, 'dropped', 'demo no longer fails on the repaired tree: ' + c, ''))
        continue
    d = f'{V}/seeded/{cid}-{x}'
    os.makedirs(d, exist_ok=True)
    shutil.copy(f'{src}/{x}.patch.diff', f'{d}/patch.diff')
    shutil.copy(f'{src}/{x}_demo_test.go', f'{d}/demo_test.go')
    am = {}
    try:
        am = json.load(open(f'{src}/{x}.meta.json'))
    except Exception:
        pass
    r = res.get((cid, x), 'not run')
    for e in extra.get((cid, x), []):   # later runs of the property's own (strengthened) check
        if e.startswith(f'by {cid} ') and 'rc=1' in e:
            r = e[len(f'by {cid} '):]
    caught = 'rc=1' in r and 'violations=0' not in r
    vcs = r.split(' ', 3)[3] if caught and len(r.split(' ', 3)) > 3 else ''
    meta = {
        'property': cid, 'change': x, 'files_changed': am.get('files_changed'), 'what': am.get('what'), 'needs': am.get('needs'),
        'confirmed_by_me': {
            'scratch_worktree_of_repaired_HEAD': 'patch applied with git apply; go build ./... (cgo emulator link errors as on the clean tree); demo test ' +
            ('FAILS with the change and PASSES without it' if 'with=[FAIL]' in c else c),
            'baseline': 'existing tests of the touched packages unchanged (agent run against the original tree; re-run of the package tests in the scratch worktree showed only the pre-existing network/fixture failures)',
            'raw': c,
        },
        'check_result': {'cmd': f'git -C /repo apply seeded/{cid}-{x}/patch.diff && ./bin/vcheck run {cid}; git -C /repo checkout -- .', 'result': r,
                         'detected_by_own_check': caught, 'violated_vcs': vcs, 'other_checks': extra.get((cid, x), [])},
    }
    json.dump(meta, open(f'{d}/meta.json', 'w'), indent=1)
    rows.append((cid, x, 'kept', 'caught' if caught else 'not caught', vcs))
for r in rows:
    print(' | '.join(r))
