// ssa2json: load packages of /repo's current working tree (plus an overlay with the
// verification harnesses), build go/ssa with instantiated generics and dump the
// call-graph closure of the harness entry points as JSON for the symbolic executor.
//
// usage: ssa2json <config.json>   (output on stdout)
// config: {"dir": "/repo", "overlay": {virtual: real}, "patterns": [...],
//          "entries": [{"pkg": path, "func": name}], "init_pkgs": [path...],
//          "stop": [pkg prefixes], "dyn_methods": [names]}
package main

import (
	"encoding/json"
	"fmt"
	"go/constant"
	"go/token"
	"go/types"
	"os"
	"sort"
	"strings"

	"golang.org/x/tools/go/packages"
	"golang.org/x/tools/go/ssa"
	"golang.org/x/tools/go/ssa/ssautil"
)

type Config struct {
	Dir        string            `json:"dir"`
	Overlay    map[string]string `json:"overlay"`
	Patterns   []string          `json:"patterns"`
	Entries    []Entry           `json:"entries"`
	InitPkgs   []string          `json:"init_pkgs"`
	Stop       []string          `json:"stop"`
	NoStop     []string          `json:"nostop"`
	DynMethods []string          `json:"dyn_methods"`
	Tags       string            `json:"tags"`
}
type Entry struct {
	Pkg  string `json:"pkg"`
	Func string `json:"func"`
}

type Instr struct {
	Op   string   `json:"op"`
	Reg  string   `json:"reg,omitempty"`
	Type string   `json:"type,omitempty"`
	Args []string `json:"args,omitempty"`
	X    any      `json:"x,omitempty"`
	Line int      `json:"line,omitempty"`
}
type Block struct {
	Index  int     `json:"index"`
	Preds  []int   `json:"preds"`
	Succs  []int   `json:"succs"`
	Ipdom  int     `json:"ipdom"`
	Instrs []Instr `json:"instrs"`
}
type Func struct {
	Name     string   `json:"name"`
	Pkg      string   `json:"pkg"`
	File     string   `json:"file,omitempty"`
	Params   []string `json:"params"`
	PTypes   []string `json:"ptypes"`
	FreeVars []string `json:"freevars"`
	FVTypes  []string `json:"fvtypes"`
	Results  []string `json:"results"`
	Blocks   []Block  `json:"blocks"`
	External bool     `json:"external"`
	Recover  int      `json:"recover"`
	Synth    string   `json:"synth,omitempty"`
}
type TypeInfo struct {
	Kind     string            `json:"kind"`
	Name     string            `json:"name,omitempty"`
	Pkg      string            `json:"pkg,omitempty"`
	Bits     int               `json:"bits,omitempty"`
	Signed   bool              `json:"signed,omitempty"`
	Elem     string            `json:"elem,omitempty"`
	Key      string            `json:"key,omitempty"`
	Len      int64             `json:"len,omitempty"`
	Fields   []FieldInfo       `json:"fields,omitempty"`
	Under    string            `json:"under,omitempty"`
	Methods  map[string]string `json:"methods,omitempty"`
	IMethods []string          `json:"imethods,omitempty"`
	Params   []string          `json:"params,omitempty"`
	Results  []string          `json:"results,omitempty"`
	Variadic bool              `json:"variadic,omitempty"`
	TArgs    []string          `json:"targs,omitempty"`
}
type FieldInfo struct {
	Name     string `json:"name"`
	Type     string `json:"type"`
	Tag      string `json:"tag,omitempty"`
	Embedded bool   `json:"embedded,omitempty"`
	Exported bool   `json:"exported,omitempty"`
}
type Out struct {
	Funcs   map[string]*Func     `json:"funcs"`
	Types   map[string]*TypeInfo `json:"types"`
	Globals map[string]*GlobalInfo `json:"globals"`
	Inits   []string             `json:"inits"`
}
type GlobalInfo struct {
	Type string `json:"type"`
	Pkg  string `json:"pkg"`
}

var out = Out{Funcs: map[string]*Func{}, Types: map[string]*TypeInfo{}, Globals: map[string]*GlobalInfo{}}
var prog *ssa.Program
var cfg Config
var dyn = map[string]bool{}
var typeOf = map[string]types.Type{}

func tid(t types.Type) string {
	if t == nil {
		return ""
	}
	s := types.TypeString(t, nil)
	if _, ok := out.Types[s]; ok {
		return s
	}
	ti := &TypeInfo{}
	out.Types[s] = ti
	typeOf[s] = t
	if a, ok := t.(*types.Alias); ok && types.TypeString(types.Unalias(a), nil) == s {
		t = types.Unalias(a) // e.g. `any`, whose unaliased form prints as `any` again
	}
	switch u := t.(type) {
	case *types.Named:
		ti.Kind = "named"
		ti.Name = u.Obj().Name()
		if u.Obj().Pkg() != nil {
			ti.Pkg = u.Obj().Pkg().Path()
		}
		if ta := u.TypeArgs(); ta != nil {
			for i := 0; i < ta.Len(); i++ {
				ti.TArgs = append(ti.TArgs, tid(ta.At(i)))
			}
		}
		ti.Under = tid(u.Underlying())
		ti.Methods = map[string]string{}
		if _, isIface := u.Underlying().(*types.Interface); !isIface {
			if _, isTP := u.Underlying().(*types.TypeParam); !isTP {
				for _, recv := range []types.Type{t, types.NewPointer(t)} {
					ms := prog.MethodSets.MethodSet(recv)
					for i := 0; i < ms.Len(); i++ {
						if f := prog.MethodValue(ms.At(i)); f != nil {
							pfx := ""
							if _, isp := recv.(*types.Pointer); isp {
								pfx = "*"
							}
							ti.Methods[pfx+ms.At(i).Obj().Name()] = f.String()
						}
					}
				}
			}
		}
	case *types.Alias:
		ti.Kind = "alias"
		ti.Under = tid(types.Unalias(t))
	case *types.Basic:
		ti.Kind = "basic"
		ti.Name = u.Name()
		switch u.Kind() {
		case types.Bool, types.UntypedBool:
			ti.Kind = "bool"
		case types.String, types.UntypedString:
			ti.Kind = "string"
		case types.Int8, types.Uint8:
			ti.Bits = 8
		case types.Int16, types.Uint16:
			ti.Bits = 16
		case types.Int32, types.Uint32, types.UntypedRune:
			ti.Bits = 32
		case types.Int, types.Uint, types.Int64, types.Uint64, types.Uintptr, types.UntypedInt:
			ti.Bits = 64
		case types.Float64, types.Float32, types.UntypedFloat:
			ti.Kind = "float"
		case types.UntypedNil:
			ti.Kind = "nil"
		case types.UnsafePointer:
			ti.Kind = "unsafeptr"
		}
		if ti.Bits > 0 {
			ti.Kind = "int"
			ti.Signed = u.Info()&types.IsUnsigned == 0
		}
	case *types.Pointer:
		ti.Kind = "ptr"
		ti.Elem = tid(u.Elem())
	case *types.Slice:
		ti.Kind = "slice"
		ti.Elem = tid(u.Elem())
	case *types.Array:
		ti.Kind = "array"
		ti.Elem = tid(u.Elem())
		ti.Len = u.Len()
	case *types.Map:
		ti.Kind = "map"
		ti.Key = tid(u.Key())
		ti.Elem = tid(u.Elem())
	case *types.Chan:
		ti.Kind = "chan"
		ti.Elem = tid(u.Elem())
	case *types.Struct:
		ti.Kind = "struct"
		for i := 0; i < u.NumFields(); i++ {
			f := u.Field(i)
			ti.Fields = append(ti.Fields, FieldInfo{f.Name(), tid(f.Type()), u.Tag(i), f.Embedded(), f.Exported()})
		}
	case *types.Tuple:
		ti.Kind = "tuple"
		for i := 0; i < u.Len(); i++ {
			ti.Fields = append(ti.Fields, FieldInfo{Name: u.At(i).Name(), Type: tid(u.At(i).Type())})
		}
	case *types.Interface:
		ti.Kind = "iface"
		for i := 0; i < u.NumMethods(); i++ {
			ti.IMethods = append(ti.IMethods, u.Method(i).Name())
		}
	case *types.Signature:
		ti.Kind = "func"
		for i := 0; i < u.Params().Len(); i++ {
			ti.Params = append(ti.Params, tid(u.Params().At(i).Type()))
		}
		for i := 0; i < u.Results().Len(); i++ {
			ti.Results = append(ti.Results, tid(u.Results().At(i).Type()))
		}
		ti.Variadic = u.Variadic()
	default:
		ti.Kind = fmt.Sprintf("other:%T", t)
	}
	return s
}

var work []*ssa.Function
var seen = map[*ssa.Function]bool{}

func fpkg(f *ssa.Function) string {
	if f.Pkg != nil {
		return f.Pkg.Pkg.Path()
	}
	if f.Object() != nil && f.Object().Pkg() != nil {
		return f.Object().Pkg().Path()
	}
	if o := f.Origin(); o != nil && o.Pkg != nil {
		return o.Pkg.Pkg.Path()
	}
	if p := f.Parent(); p != nil {
		return fpkg(p)
	}
	return ""
}

func hasPfx(p string, list []string) bool {
	for _, s := range list {
		if p == s || strings.HasPrefix(p, s+"/") {
			return true
		}
	}
	return false
}

func stopped(f *ssa.Function) bool {
	p := fpkg(f)
	if hasPfx(p, cfg.NoStop) {
		return false
	}
	if f.Name() == "init" && f.Signature.Recv() == nil && f.Parent() == nil {
		// package initialisers: only those explicitly requested
		for _, ip := range cfg.InitPkgs {
			if ip == p {
				return false
			}
		}
		return true
	}
	return hasPfx(p, cfg.Stop)
}

func need(f *ssa.Function) string {
	if f == nil {
		return ""
	}
	if stopped(f) {
		if _, ok := out.Funcs[f.String()]; !ok {
			fo := &Func{Name: f.String(), External: true, Pkg: fpkg(f)}
			sigInfo(f, fo)
			out.Funcs[f.String()] = fo
		}
		return f.String()
	}
	if !seen[f] {
		seen[f] = true
		work = append(work, f)
	}
	return f.String()
}

var methodsDone = map[string]bool{}

// all methods of a type that flows into an interface
func needMethods(t types.Type, onlyDyn bool) {
	key := types.TypeString(t, nil)
	k2 := key
	if onlyDyn {
		k2 = "dyn:" + key
	}
	if methodsDone[k2] {
		return
	}
	methodsDone[k2] = true
	tid(t)
	ms := prog.MethodSets.MethodSet(t)
	for i := 0; i < ms.Len(); i++ {
		if onlyDyn && !dyn[ms.At(i).Obj().Name()] {
			continue
		}
		if f := prog.MethodValue(ms.At(i)); f != nil {
			need(f)
		}
	}
	// types reachable through fields/elements can be reached by reflection
	var walk func(t types.Type, depth int)
	walked := map[string]bool{}
	walk = func(t types.Type, depth int) {
		s := types.TypeString(t, nil)
		if walked[s] || depth > 12 {
			return
		}
		walked[s] = true
		tid(t)
		if _, ok := t.(*types.Named); ok {
			needMethods(t, true)
			needMethods(types.NewPointer(t), true)
		}
		switch u := t.Underlying().(type) {
		case *types.Struct:
			for i := 0; i < u.NumFields(); i++ {
				walk(u.Field(i).Type(), depth+1)
			}
		case *types.Pointer:
			walk(u.Elem(), depth+1)
		case *types.Slice:
			walk(u.Elem(), depth+1)
		case *types.Array:
			walk(u.Elem(), depth+1)
		case *types.Map:
			walk(u.Key(), depth+1)
			walk(u.Elem(), depth+1)
		}
	}
	if len(dyn) > 0 {
		walk(t, 0)
	}
}

func val(v ssa.Value) string {
	switch x := v.(type) {
	case nil:
		return ""
	case *ssa.Const:
		t := tid(x.Type())
		if x.Value == nil {
			return "c|" + t + "|nil"
		}
		switch x.Value.Kind() {
		case constant.Int:
			return "c|" + t + "|" + x.Value.ExactString()
		case constant.Bool:
			return "c|" + t + "|" + x.Value.String()
		case constant.String:
			b, _ := json.Marshal([]byte(constant.StringVal(x.Value)))
			return "c|" + t + "|s" + string(b)
		default:
			f, _ := constant.Float64Val(x.Value)
			return "c|" + t + "|f" + fmt.Sprintf("%v", f)
		}
	case *ssa.Function:
		return "f|" + need(x)
	case *ssa.Global:
		gp := ""
		if x.Pkg != nil {
			gp = x.Pkg.Pkg.Path()
		}
		out.Globals[x.String()] = &GlobalInfo{tid(x.Type()), gp}
		return "g|" + x.String()
	case *ssa.Builtin:
		return "b|" + x.Name()
	case *ssa.Parameter:
		return "r|" + x.Name()
	case *ssa.FreeVar:
		return "v|" + x.Name()
	default:
		return "r|" + v.Name()
	}
}

func ipdoms(f *ssa.Function) []int {
	n := len(f.Blocks)
	exit := n
	succs := make([][]int, n+1)
	for _, b := range f.Blocks {
		if len(b.Succs) == 0 {
			succs[b.Index] = []int{exit}
		}
		for _, s := range b.Succs {
			succs[b.Index] = append(succs[b.Index], s.Index)
		}
	}
	// bitset post-dominator sets
	words := (n + 1 + 63) / 64
	full := make([][]uint64, n+1)
	for i := 0; i <= n; i++ {
		full[i] = make([]uint64, words)
		for w := range full[i] {
			full[i][w] = ^uint64(0)
		}
	}
	for w := range full[exit] {
		full[exit][w] = 0
	}
	full[exit][exit/64] = 1 << uint(exit%64)
	changed := true
	tmp := make([]uint64, words)
	for changed {
		changed = false
		for i := n - 1; i >= 0; i-- {
			if len(succs[i]) == 0 {
				continue
			}
			for w := range tmp {
				tmp[w] = ^uint64(0)
			}
			for _, s := range succs[i] {
				for w := range tmp {
					tmp[w] &= full[s][w]
				}
			}
			tmp[i/64] |= 1 << uint(i%64)
			for w := range tmp {
				if tmp[w] != full[i][w] {
					changed = true
					copy(full[i], tmp)
					break
				}
			}
		}
	}
	count := func(s []uint64) int {
		c := 0
		for _, w := range s {
			for ; w != 0; w &= w - 1 {
				c++
			}
		}
		return c
	}
	sizes := make([]int, n+1)
	for i := 0; i <= n; i++ {
		sizes[i] = count(full[i])
	}
	res := make([]int, n)
	for i := 0; i < n; i++ {
		best := exit
		bestSize := -1
		for k := 0; k <= n; k++ {
			if k == i || full[i][k/64]&(1<<uint(k%64)) == 0 {
				continue
			}
			if sizes[k] > bestSize {
				best, bestSize = k, sizes[k]
			}
		}
		res[i] = best
	}
	return res
}

func sigInfo(f *ssa.Function, fo *Func) {
	for _, p := range f.Params {
		fo.Params = append(fo.Params, p.Name())
		fo.PTypes = append(fo.PTypes, tid(p.Type()))
	}
	if len(f.Params) == 0 && f.Signature != nil {
		// external functions have no Params
		if r := f.Signature.Recv(); r != nil {
			fo.PTypes = append(fo.PTypes, tid(r.Type()))
			fo.Params = append(fo.Params, "recv")
		}
		for i := 0; i < f.Signature.Params().Len(); i++ {
			fo.PTypes = append(fo.PTypes, tid(f.Signature.Params().At(i).Type()))
			fo.Params = append(fo.Params, fmt.Sprintf("p%d", i))
		}
	}
	res := f.Signature.Results()
	for i := 0; i < res.Len(); i++ {
		fo.Results = append(fo.Results, tid(res.At(i).Type()))
	}
}

func dump(f *ssa.Function) {
	fo := &Func{Name: f.String(), Recover: -1, Synth: f.Synthetic}
	out.Funcs[f.String()] = fo
	fo.Pkg = fpkg(f)
	if f.Pos() != token.NoPos {
		fo.File = prog.Fset.Position(f.Pos()).Filename
	}
	sigInfo(f, fo)
	for _, p := range f.FreeVars {
		fo.FreeVars = append(fo.FreeVars, p.Name())
		fo.FVTypes = append(fo.FVTypes, tid(p.Type()))
	}
	if len(f.Blocks) == 0 {
		fo.External = true
		return
	}
	if f.Recover != nil {
		fo.Recover = f.Recover.Index
	}
	ip := ipdoms(f)
	for _, b := range f.Blocks {
		bo := Block{Index: b.Index, Ipdom: ip[b.Index], Preds: []int{}, Succs: []int{}}
		for _, p := range b.Preds {
			bo.Preds = append(bo.Preds, p.Index)
		}
		for _, s := range b.Succs {
			bo.Succs = append(bo.Succs, s.Index)
		}
		for _, in := range b.Instrs {
			io := Instr{Op: strings.TrimPrefix(fmt.Sprintf("%T", in), "*ssa.")}
			if v, ok := in.(ssa.Value); ok {
				io.Reg = v.Name()
				io.Type = tid(v.Type())
			}
			if p := in.Pos(); p != token.NoPos {
				io.Line = prog.Fset.Position(p).Line
			}
			switch x := in.(type) {
			case *ssa.BinOp:
				io.X = x.Op.String()
				io.Args = []string{val(x.X), val(x.Y)}
			case *ssa.UnOp:
				io.X = map[string]any{"op": x.Op.String(), "commaok": x.CommaOk}
				io.Args = []string{val(x.X)}
			case *ssa.Call, *ssa.Defer, *ssa.Go:
				var c *ssa.CallCommon
				switch y := in.(type) {
				case *ssa.Call:
					c = &y.Call
				case *ssa.Defer:
					c = &y.Call
				case *ssa.Go:
					c = &y.Call
				}
				m := map[string]any{}
				if c.IsInvoke() {
					m["invoke"] = c.Method.Name()
					m["recvtype"] = tid(c.Value.Type())
				}
				m["sig"] = tid(c.Signature())
				io.X = m
				io.Args = append(io.Args, val(c.Value))
				for _, a := range c.Args {
					io.Args = append(io.Args, val(a))
				}
			case *ssa.Alloc:
				io.X = map[string]any{"heap": x.Heap, "elem": tid(x.Type().(*types.Pointer).Elem())}
			case *ssa.Store:
				io.Args = []string{val(x.Addr), val(x.Val)}
				io.X = tid(x.Val.Type())
			case *ssa.FieldAddr:
				io.X = x.Field
				io.Args = []string{val(x.X)}
			case *ssa.Field:
				io.X = x.Field
				io.Args = []string{val(x.X)}
			case *ssa.IndexAddr:
				io.Args = []string{val(x.X), val(x.Index)}
				io.X = map[string]any{"xt": tid(x.X.Type()), "it": tid(x.Index.Type())}
			case *ssa.Index:
				io.Args = []string{val(x.X), val(x.Index)}
				io.X = map[string]any{"xt": tid(x.X.Type()), "it": tid(x.Index.Type())}
			case *ssa.Lookup:
				io.Args = []string{val(x.X), val(x.Index)}
				io.X = map[string]any{"commaok": x.CommaOk, "xt": tid(x.X.Type()), "it": tid(x.Index.Type())}
			case *ssa.Slice:
				io.Args = []string{val(x.X), val(x.Low), val(x.High), val(x.Max)}
				io.X = tid(x.X.Type())
			case *ssa.MakeSlice:
				io.Args = []string{val(x.Len), val(x.Cap)}
			case *ssa.MakeMap:
				io.Args = []string{val(x.Reserve)}
			case *ssa.MakeChan:
				io.Args = []string{val(x.Size)}
			case *ssa.MakeInterface:
				io.Args = []string{val(x.X)}
				io.X = tid(x.X.Type())
				needMethods(x.X.Type(), false)
			case *ssa.MakeClosure:
				io.Args = []string{val(x.Fn)}
				for _, b := range x.Bindings {
					io.Args = append(io.Args, val(b))
				}
			case *ssa.ChangeType:
				io.Args = []string{val(x.X)}
				io.X = tid(x.X.Type())
			case *ssa.ChangeInterface:
				io.Args = []string{val(x.X)}
			case *ssa.Convert:
				io.Args = []string{val(x.X)}
				io.X = tid(x.X.Type())
			case *ssa.SliceToArrayPointer:
				io.Args = []string{val(x.X)}
			case *ssa.Extract:
				io.Args = []string{val(x.Tuple)}
				io.X = x.Index
			case *ssa.Phi:
				for _, e := range x.Edges {
					io.Args = append(io.Args, val(e))
				}
			case *ssa.If:
				io.Args = []string{val(x.Cond)}
			case *ssa.Jump:
			case *ssa.Return:
				for _, r := range x.Results {
					io.Args = append(io.Args, val(r))
				}
			case *ssa.Panic:
				io.Args = []string{val(x.X)}
			case *ssa.TypeAssert:
				io.Args = []string{val(x.X)}
				io.X = map[string]any{"asserted": tid(x.AssertedType), "commaok": x.CommaOk}
			case *ssa.MapUpdate:
				io.Args = []string{val(x.Map), val(x.Key), val(x.Value)}
				io.X = tid(x.Map.Type())
			case *ssa.Range:
				io.Args = []string{val(x.X)}
				io.X = tid(x.X.Type())
			case *ssa.Next:
				io.Args = []string{val(x.Iter)}
				io.X = x.IsString
			case *ssa.RunDefers:
			case *ssa.Send:
				io.Args = []string{val(x.Chan), val(x.X)}
			case *ssa.Select:
				var sts []map[string]any
				for _, st := range x.States {
					dir := "recv"
					if st.Dir == types.SendOnly {
						dir = "send"
					}
					io.Args = append(io.Args, val(st.Chan))
					io.Args = append(io.Args, val(st.Send))
					sts = append(sts, map[string]any{"dir": dir, "elem": tid(st.Chan.Type().Underlying().(*types.Chan).Elem())})
				}
				io.X = map[string]any{"blocking": x.Blocking, "states": sts}
			case *ssa.DebugRef:
				continue
			default:
				io.X = "UNHANDLED"
			}
			bo.Instrs = append(bo.Instrs, io)
		}
		fo.Blocks = append(fo.Blocks, bo)
	}
}

func main() {
	b, err := os.ReadFile(os.Args[1])
	if err != nil {
		panic(err)
	}
	if err := json.Unmarshal(b, &cfg); err != nil {
		panic(err)
	}
	for _, m := range cfg.DynMethods {
		dyn[m] = true
	}
	overlay := map[string][]byte{}
	for k, v := range cfg.Overlay {
		c, err := os.ReadFile(v)
		if err != nil {
			panic(err)
		}
		overlay[k] = c
	}
	tags := cfg.Tags
	if tags == "" {
		tags = "verif"
	}
	pc := &packages.Config{Mode: packages.LoadAllSyntax, Dir: cfg.Dir, BuildFlags: []string{"-tags=" + tags}, Overlay: overlay}
	pkgs, err := packages.Load(pc, cfg.Patterns...)
	if err != nil {
		fmt.Fprintln(os.Stderr, "load error:", err)
		os.Exit(1)
	}
	if packages.PrintErrors(pkgs) > 0 {
		os.Exit(1)
	}
	var spkgs []*ssa.Package
	prog, spkgs = ssautil.AllPackages(pkgs, ssa.InstantiateGenerics)
	prog.Build()
	byPath := map[string]*ssa.Package{}
	for _, p := range prog.AllPackages() {
		byPath[p.Pkg.Path()] = p
	}
	_ = spkgs
	for _, e := range cfg.Entries {
		p := byPath[e.Pkg]
		if p == nil {
			fmt.Fprintln(os.Stderr, "no package", e.Pkg)
			os.Exit(1)
		}
		f := p.Func(e.Func)
		if f == nil {
			fmt.Fprintln(os.Stderr, "no entry", e.Pkg, e.Func)
			os.Exit(1)
		}
		need(f)
	}
	for _, ip := range cfg.InitPkgs {
		p := byPath[ip]
		if p == nil {
			fmt.Fprintln(os.Stderr, "no init package", ip)
			os.Exit(1)
		}
		if in := p.Func("init"); in != nil {
			out.Inits = append(out.Inits, need(in))
		}
	}
	for len(work) > 0 {
		f := work[0]
		work = work[1:]
		dump(f)
		for _, af := range f.AnonFuncs {
			need(af)
		}
	}
	names := make([]string, 0, len(out.Funcs))
	for n := range out.Funcs {
		names = append(names, n)
	}
	sort.Strings(names)
	enc := json.NewEncoder(os.Stdout)
	if err := enc.Encode(out); err != nil {
		panic(err)
	}
	fmt.Fprintln(os.Stderr, "ssa2json: funcs", len(out.Funcs), "types", len(out.Types))
}
