#!/usr/bin/env python3
# regenerate MANIFEST.json from checks/*.py and checks/not_applicable.json
import json, os, glob, importlib.util, sys
V = os.path.dirname(os.path.dirname(os.path.abspath(__file__)))
props = [json.loads(l)['id'] for l in open(f'{V}/properties.jsonl')]
checks = []
claimed = set()
for p in sorted(glob.glob(f'{V}/checks/C*.py')):
    spec = importlib.util.spec_from_file_location('c', p)
    m = importlib.util.module_from_spec(spec)
    spec.loader.exec_module(m)
    c = m.CHECK
    if c.get('disabled'):
        continue
    cid = c['id']
    claimed.add(cid)
    checks.append({
        'property_id': cid,
        'quick_cmd': f'./bin/vcheck run {cid} --tier quick',
        'thorough_cmd': f'./bin/vcheck run {cid} --tier thorough',
        'evidence_file': f'/verif/evidence/{cid}.json',
        'replay_cmd_template': './bin/vcheck replay {path}',
        'engine': 'symgo',
        'level_claimed': {'category': 'model_checking', 'text': c.get('level_text', ''), 'design_ref': c.get('design_ref', 'DESIGN.md section 7 ' + cid)},
        'level_note': c.get('level_note', ''),
        'technique': c.get('technique', 'bounded symbolic execution of the go/ssa form of the real functions; every run-time check and harness assertion is a verification condition decided by z3 (unsat = holds for all inputs within the stated bounds, sat = counterexample replayed natively)'),
    })
na = json.load(open(f'{V}/checks/not_applicable.json'))
na = [x for x in na if x['property_id'] not in claimed]
missing = [p for p in props if p not in claimed and p not in {x['property_id'] for x in na}]
if missing:
    print('properties neither claimed nor not_applicable:', missing); sys.exit(1)
man = {
    'version': 1,
    'setup_cmd': './bin/setup.sh',
    'hooks': {'guard': 'verif', 'enable': 'harnesses are injected with a build overlay (go/packages Overlay for encoding, go test -overlay -tags verif for native replay); no file in /repo carries hooks.  Three checks additionally replace one function body of the tree through the same overlay, regenerated from the current file on every run, to stub the network below the code under test: liteclient/client.go liteServerRequest (C09, C10), liteapi/client.go GetTransactionsRaw (C08); C09 replaces liteclient/generated.go by the output of the current generator',
              'baseline_off_cmd': "cd /repo && go test -vet=off -count=1 -timeout 25m ./...", 'source_commits': [], 'add_only': True},
    'engines': [{'name': 'symgo', 'path': '/verif/symgo', 'serves_properties': sorted(claimed),
                 'kind_free_text': 'SSA (go/ssa via tools/ssa2json) -> bounded symbolic executor in Python -> z3 5.1 (cross-checked with z3 4.8.12 and cvc5 1.0); native replay through go test -overlay'}],
    'checks': checks,
    'not_applicable': na,
    'notes': 'See DESIGN.md. Exit codes of ./bin/vcheck: 0 holds within bounds, 1 replayed violation, 2 inconclusive, 3 encoder mismatch.',
}
json.dump(man, open(f'{V}/MANIFEST.json', 'w'), indent=1)
print('MANIFEST.json:', len(checks), 'checks,', len(na), 'not applicable')
