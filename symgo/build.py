# build the SSA dump of a set of harness entry points from /repo's current working tree
import json, os, subprocess, glob, re, sys

VERIF = os.path.dirname(os.path.dirname(os.path.abspath(__file__)))
REPO = os.environ.get('VERIF_REPO', '/repo')
MOD = 'github.com/tonkeeper/tongo'

STOP = ["fmt", "crypto", "reflect", "math/big", "hash", "sync", "time", "os", "runtime", "internal", "unicode/utf16",
        "syscall", "io/fs", "math/rand", "encoding/json", "log", "net", "context", "sort", "math/bits", "unsafe",
        "golang.org/x/crypto", "github.com/oasisprotocol", "github.com/alecthomas", "text/template", "bufio", "math"]
DYN = ["MarshalTLB", "UnmarshalTLB", "MarshalTL", "UnmarshalTL", "FixedSize", "Compare", "Equal", "Error", "EncodeTag", "ValidateTag"]

GOENV = dict(os.environ, GOFLAGS='-mod=mod', GOPROXY='off', GOSUMDB='off', GOTOOLCHAIN='local')


EXTRA = {}   # pkgdir -> [generated harness files] (set by run_generators)
EXTRA_OVERLAY = {}   # virtual path -> real path: files of /repo replaced by generator output (C09)


def run_generators(gens, work):
    """gens: list of (script relative to /verif, pkgdir, output name); regenerated from /repo on every run"""
    EXTRA.clear()
    EXTRA_OVERLAY.clear()
    for script, pkgdir, name in gens or []:
        out = f'{work}/{name}'
        r = subprocess.run([sys.executable, f'{VERIF}/{script}', REPO, out], capture_output=True, text=True)
        if r.returncode != 0:
            raise RuntimeError(f'generator {script} failed:\n' + r.stderr)
        EXTRA.setdefault(pkgdir, []).append(out)
        for line in r.stdout.split('\n'):
            if line.startswith('OVERLAY '):
                _, virt, real = line.split()
                EXTRA_OVERLAY[virt] = real


def harness_files(p):
    d = 'root' if p == '.' else p
    return sorted(glob.glob(f'{VERIF}/harness/{d}/*.go')) + EXTRA.get(p, [])


def harness_overlay(pkgs, native=False):
    """pkgs: list of package dirs relative to the repo root ('boc', 'liteapi/pool', '.')"""
    ov = {}
    z = 'native.go' if native else 'decl.go'
    ov[f'{REPO}/zzvrt/rt.go'] = f'{VERIF}/harness/zzvrt/{z}'
    for p in pkgs:
        for f in harness_files(p):
            tgt = REPO + ('/' if p == '.' else f'/{p}/') + 'zz_verif_' + os.path.basename(f)
            ov[tgt] = f
    ov.update(EXTRA_OVERLAY)
    return ov


def importpath(p):
    return MOD if p == '.' else f'{MOD}/{p}'


def build_dump(out, pkgs, entries, init_pkgs=(), stop=None, nostop=(), dyn=None):
    """entries: list of (pkgdir, funcname)"""
    cfg = {
        'dir': REPO,
        'overlay': harness_overlay(pkgs),
        'patterns': [('./' + p if p != '.' else '.') for p in pkgs],
        'entries': [{'pkg': importpath(p), 'func': f} for p, f in entries],
        'init_pkgs': [(importpath(p) if not p.startswith('std:') else p[4:]) for p in init_pkgs],
        'stop': STOP if stop is None else stop,
        'nostop': list(nostop),
        'dyn_methods': DYN if dyn is None else dyn,
    }
    cfgp = out + '.cfg.json'
    json.dump(cfg, open(cfgp, 'w'))
    exe = f'{VERIF}/bin/ssa2json'
    with open(out, 'w') as fo:
        r = subprocess.run([exe, cfgp], stdout=fo, stderr=subprocess.PIPE, env=GOENV, text=True)
    if r.returncode != 0:
        raise RuntimeError('ssa2json failed:\n' + r.stderr)
    return r.stderr.strip()


def harness_funcs(pkgs):
    """{pkgdir: [(name, [(pname, ptype)...])]} for every VH_ function in the harness files"""
    res = {}
    for p in pkgs:
        fs = []
        for f in harness_files(p):
            src = open(f).read()
            for m in re.finditer(r'^func (VH_\w+)\(([^)]*)\)\s*{', src, re.M):
                params = []
                pend = []
                for part in [x.strip() for x in m.group(2).split(',') if x.strip()]:
                    bits = part.split()
                    if len(bits) == 1:
                        pend.append(bits[0])
                    else:
                        for q in pend:
                            params.append((q, bits[1]))
                        pend = []
                        params.append((bits[0], bits[1]))
                fs.append((m.group(1), params))
        res[p] = fs
    return res


if __name__ == '__main__':
    # dev helper: build.py out.json pkg[,pkg] entry[,entry] [init_pkg,...]
    out, pk, en = sys.argv[1:4]
    pkgs = pk.split(',')
    inits = sys.argv[4].split(',') if len(sys.argv) > 4 and sys.argv[4] else []
    print(build_dump(out, pkgs, [(pkgs[0], e) for e in en.split(',')], inits))
