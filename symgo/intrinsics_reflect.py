# Model of package reflect over the dumped type table (DESIGN 4.2).  Types are static, only leaf
# values are symbolic, so reflection is executed exactly; this model is validated on every run by the
# native differential runs of the harnesses that reach it.
import z3
import engine as E
from engine import *
from intrinsics import I, ret, py_str

KIND = {'invalid': 0, 'bool': 1, 'int': 2, 'int8': 3, 'int16': 4, 'int32': 5, 'int64': 6, 'uint': 7, 'uint8': 8, 'uint16': 9,
        'uint32': 10, 'uint64': 11, 'uintptr': 12, 'float32': 13, 'float64': 14, 'array': 17, 'chan': 18, 'func': 19,
        'iface': 20, 'map': 21, 'ptr': 22, 'slice': 23, 'string': 24, 'struct': 25, 'unsafeptr': 26}


class RV:
    """reflect.Value"""
    __slots__ = ('t', 'ptr', 'val', 'canset')

    def __init__(s, t, ptr=None, val=None, canset=False):
        s.t, s.ptr, s.val, s.canset = t, ptr, val, canset

    def __repr__(s):
        return f'RV({s.t},{"@" + repr(s.ptr) if s.ptr is not None else repr(s.val)})'


E.RV = RV


def canon(t):
    x = E.TYPES[t]
    while x['kind'] == 'alias':
        t = x['under']
        x = E.TYPES[t]
    return t


def ptr_type(t):
    k = '*' + t
    if k not in E.TYPES:
        E.TYPES[k] = {'kind': 'ptr', 'elem': t}
    return k


def kind_of(t):
    x = E.ty(t)
    k = x['kind']
    if k == 'int':
        n = x.get('name')
        if n in ('int', 'uint', 'uintptr'):
            return KIND[n]
        if n == 'byte':
            return KIND['uint8']
        if n == 'rune':
            return KIND['int32']
        return KIND[('int' if x.get('signed') else 'uint') + str(x['bits'])]
    if k == 'float':
        return KIND['float64']
    return KIND[k]


def is_rv(v):
    return isinstance(v, RV)


def rv_get(it, st, v):
    if not is_rv(v):
        raise Unsupported('use of the zero reflect.Value')
    if v.ptr is not None:
        return it.load(st, v.ptr, 'reflect:deref')
    return v.val


def rtype(t):
    return Iface('$rtype', canon(t))


def rt_id(x):
    if x is None:
        raise Unsupported('nil reflect.Type')
    return x.v


@I.reg('reflect.ValueOf')
def r_valueof(it, st, args, fname):
    i = args[0]
    if i is None:
        return ret(st, zero('reflect.Value'))
    return ret(st, RV(canon(i.t), val=i.v))


@I.reg('reflect.TypeOf')
def r_typeof(it, st, args, fname):
    i = args[0]
    return ret(st, None if i is None else rtype(i.t))


@I.reg('reflect.New')
def r_new(it, st, args, fname):
    t = rt_id(args[0])
    oid = it.new_obj(st, zero(t), t)
    return ret(st, RV(ptr_type(t), val=Ptr(oid)))


@I.reg('reflect.Zero')
def r_zero(it, st, args, fname):
    t = rt_id(args[0])
    return ret(st, RV(t, val=zero(t)))


@I.reg('reflect.Indirect')
def r_indirect(it, st, args, fname):
    v = args[0]
    if is_rv(v) and E.ty(v.t)['kind'] == 'ptr':
        return rv_method(it, st, [v], '(reflect.Value).Elem')
    return ret(st, v)


@I.reg('reflect.Copy')
def r_copy(it, st, args, fname):
    dst, src = args
    sv = rv_get(it, st, src)
    dt = E.ty(dst.t)
    if dt['kind'] == 'array':
        if dst.ptr is None:
            it.violated(st, 'reflect:copy-to-unaddressable')
        n = dt['len']
        dsl = Slice(dst.ptr.obj, dst.ptr.path, 0, n, n)
    else:
        dsl = rv_get(it, st, dst)
    st_t = E.ty(src.t)
    if st_t['kind'] == 'array':
        if src.ptr is not None:
            ssl = Slice(src.ptr.obj, src.ptr.path, 0, st_t['len'], st_t['len'])
        else:
            ssl = it.make_slice(st, st_t['elem'], list(sv))
    else:
        ssl = sv
    return ret(st, it.do_copy(st, dsl, ssl))


@I.reg('reflect.MakeSlice')
def r_makeslice(it, st, args, fname):
    t = rt_id(args[0])
    et = E.ty(t)['elem']
    sl = it.alloc_slice(st, et, args[1], args[2], 'reflect.MakeSlice:makeslice')
    return ret(st, RV(t, val=sl))


@I.reg('reflect.Append')
def r_append(it, st, args, fname):
    s, xs = args
    sl = rv_get(it, st, s)
    et = E.ty(s.t)['elem']
    vals = [rv_get(it, st, x) for x in it.slice_values(st, xs, 'reflect.Append args')]
    src = it.make_slice(st, et, vals)
    res = it.do_append(st, sl, src, {'type': s.t}, None)
    return ret(st, RV(s.t, val=res))


def struct_field_value(t, i):
    x = E.ty(t)
    f = x['fields'][i]
    sf = E.ty('reflect.StructField')
    vals = []
    for fd in sf['fields']:
        n = fd['name']
        if n == 'Name':
            vals.append(mkstr(f['name']))
        elif n == 'PkgPath':
            vals.append(mkstr('' if f.get('exported') else 'pkg'))
        elif n == 'Type':
            vals.append(rtype(f['type']))
        elif n == 'Tag':
            vals.append(mkstr(f.get('tag', '')))
        elif n == 'Anonymous':
            vals.append(bool(f.get('embedded')))
        elif n == 'Index':
            vals.append(NILSLICE)
        else:
            vals.append(zero(fd['type']))
    return tuple(vals)


def field_index(t, name):
    x = E.ty(t)
    for i, f in enumerate(x.get('fields') or []):
        if f['name'] == name:
            return i
    return -1


def rv_method(it, st, args, fname):
    m = fname.rsplit('.', 1)[1]
    v = args[0]
    if not is_rv(v):
        if m == 'IsValid':
            return ret(st, False)
        if m == 'Kind':
            return ret(st, 0)
        it.violated(st, 'reflect:call-on-zero-Value:' + m)
    x = E.ty(v.t)
    k = x['kind']
    if m == 'IsValid':
        return ret(st, True)
    if m == 'Kind':
        return ret(st, kind_of(v.t))
    if m == 'Type':
        return ret(st, rtype(v.t))
    if m == 'CanAddr':
        return ret(st, v.ptr is not None)
    if m == 'CanSet':
        return ret(st, v.ptr is not None and v.canset)
    if m == 'CanInterface':
        return ret(st, True)
    if m == 'Interface':
        val = rv_get(it, st, v)
        if k == 'iface':
            return ret(st, val)
        return ret(st, Iface(v.t, val))
    if m == 'Elem':
        val = rv_get(it, st, v)
        if k == 'ptr':
            if val is None:
                return ret(st, zero('reflect.Value'))
            return ret(st, RV(canon(x['elem']), ptr=val, canset=True))
        if k == 'iface':
            if val is None:
                return ret(st, zero('reflect.Value'))
            return ret(st, RV(canon(val.t), val=val.v))
        it.violated(st, 'reflect:Elem-of-' + k)
    if m == 'Addr':
        if v.ptr is None:
            it.violated(st, 'reflect:Addr-of-unaddressable')
        return ret(st, RV(ptr_type(v.t), val=v.ptr))
    if m == 'IsNil':
        val = rv_get(it, st, v)
        if k == 'slice':
            return ret(st, val.obj is None)
        if k in ('ptr', 'map', 'chan', 'func', 'iface', 'unsafeptr'):
            return ret(st, val is None)
        it.violated(st, 'reflect:IsNil-of-' + k)
    if m == 'IsZero':
        val = rv_get(it, st, v)
        return ret(st, eqv(val, zero(v.t)) if k not in ('slice',) else val.obj is None)
    if m == 'NumField':
        if k != 'struct':
            it.violated(st, 'reflect:NumField-of-' + k)
        return ret(st, len(x.get('fields') or []))
    if m == 'Field' or m == 'FieldByName':
        if k != 'struct':
            it.violated(st, 'reflect:Field-of-' + k)
        if m == 'Field':
            i = it.concrete_int(st, args[1], 'reflect field index')
            if i < 0 or i >= len(x.get('fields') or []):
                it.violated(st, 'reflect:Field-index')
        else:
            i = field_index(v.t, py_str(args[1]))
            if i < 0:
                return ret(st, zero('reflect.Value'))
        f = x['fields'][i]
        ft = canon(f['type'])
        if v.ptr is not None:
            return ret(st, RV(ft, ptr=Ptr(v.ptr.obj, v.ptr.path + (i,)), canset=v.canset and bool(f.get('exported'))))
        return ret(st, RV(ft, val=v.val[i]))
    if m == 'Len':
        if k == 'array':
            return ret(st, x['len'])
        val = rv_get(it, st, v)
        if k == 'slice':
            return ret(st, val.len)
        if k == 'string':
            return ret(st, len(val.b))
        it.violated(st, 'reflect:Len-of-' + k)
    if m == 'Cap':
        if k == 'array':
            return ret(st, x['len'])
        return ret(st, rv_get(it, st, v).cap)
    if m == 'Index':
        i = args[1]
        et = canon(x['elem']) if k in ('array', 'slice') else 'uint8'
        if k == 'array':
            it.vc(st, And(sge(i, 0), slt(i, x['len'])), 'reflect:Index:index')
            if v.ptr is not None:
                return ret(st, RV(et, ptr=Ptr(v.ptr.obj, v.ptr.path + (simp_i(i),)), canset=v.canset))
            val, _ = get_path(v.val, (simp_i(i),), v.t)
            return ret(st, RV(et, val=val))
        if k == 'slice':
            sl = rv_get(it, st, v)
            it.vc(st, And(sge(i, 0), slt(i, sl.len)), 'reflect:Index:index')
            return ret(st, RV(et, ptr=Ptr(sl.obj, sl.path + (simp_i(add64(sl.off, i)),)), canset=True))
        it.violated(st, 'reflect:Index-of-' + k)
    if m in ('Int', 'Uint'):
        val = rv_get(it, st, v)
        if k != 'int':
            it.violated(st, 'reflect:' + m + '-of-' + k)
        return ret(st, conv_int(val, x['bits'], x.get('signed', False), 64))
    if m == 'Bool':
        return ret(st, rv_get(it, st, v))
    if m == 'String':
        if k == 'string':
            return ret(st, rv_get(it, st, v))
        return ret(st, mkstr('<' + v.t + ' Value>'))
    if m == 'Bytes':
        val = rv_get(it, st, v)
        if k == 'array':
            if v.ptr is None:
                it.violated(st, 'reflect:Bytes-of-unaddressable-array')
            return ret(st, Slice(v.ptr.obj, v.ptr.path, 0, x['len'], x['len']))
        return ret(st, val)
    if m.startswith('Set'):
        if v.ptr is None or not v.canset:
            it.violated(st, 'reflect:' + m + '-on-unsettable-value')
        nv = args[1]
        if m == 'Set':
            nv = rv_get(it, st, nv)
            if k == 'iface' and E.ty(args[1].t)['kind'] != 'iface':
                nv = Iface(args[1].t, nv)
        elif m in ('SetInt', 'SetUint'):
            nv = conv_int(nv, 64, m == 'SetInt', x['bits'])
        elif m in ('SetBool', 'SetString', 'SetBytes'):
            pass
        elif m == 'SetLen':
            sl = rv_get(it, st, v)
            nv = Slice(sl.obj, sl.path, sl.off, nv, sl.cap)
        else:
            raise Unsupported(fname)
        it.store(st, v.ptr, nv, 'reflect:store')
        return ret(st)
    raise Unsupported(fname)


I.regp('(reflect.Value).')(rv_method)


def rt_method(name):
    def f(it, st, args):
        t = args[0]
        x = E.TYPES[t]
        u = E.ty(t)
        if name == 'Kind':
            return ret(st, kind_of(t))
        if name == 'Name':
            return ret(st, mkstr(x.get('name', '') if x['kind'] in ('named',) else (x.get('name', '') if x['kind'] in ('int', 'bool', 'string', 'float') else '')))
        if name == 'String':
            return ret(st, mkstr(t.replace('github.com/tonkeeper/tongo/', '')))
        if name == 'PkgPath':
            return ret(st, mkstr(x.get('pkg', '')))
        if name == 'Elem':
            if u['kind'] not in ('ptr', 'slice', 'array', 'map', 'chan'):
                it.violated(st, 'reflect:Type.Elem-of-' + u['kind'])
            return ret(st, rtype(u['elem']))
        if name == 'Key':
            return ret(st, rtype(u['key']))
        if name == 'Len':
            return ret(st, u['len'])
        if name == 'NumField':
            return ret(st, len(u.get('fields') or []))
        if name == 'Field':
            i = it.concrete_int(st, args[1], 'reflect field index')
            if u['kind'] != 'struct' or i < 0 or i >= len(u.get('fields') or []):
                it.violated(st, 'reflect:Type.Field-index')
            return ret(st, struct_field_value(t, i))
        if name == 'FieldByName':
            i = field_index(t, py_str(args[1])) if u['kind'] == 'struct' else -1
            if i < 0:
                return ret(st, (zero('reflect.StructField'), False))
            return ret(st, (struct_field_value(t, i), True))
        if name == 'Size':
            from interp import sizeof
            return ret(st, sizeof(t))
        if name == 'Implements':
            want = E.ty(rt_id(args[1]))
            ok = all(it.find_method(t, mm) is not None for mm in (want.get('imethods') or []))
            return ret(st, ok)
        if name == 'Comparable':
            return ret(st, u['kind'] not in ('slice', 'map', 'func'))
        raise Unsupported('reflect.Type.' + name)
    return f


for _n in ('Kind', 'Name', 'String', 'PkgPath', 'Elem', 'Key', 'Len', 'NumField', 'Field', 'FieldByName', 'Size', 'Implements', 'Comparable'):
    I.synth[('$rtype', _n)] = rt_method(_n)


@I.reg('(reflect.StructTag).Get')
def tag_get(it, st, args, fname):
    v, _ = parse_tag(py_str(args[0]), py_str(args[1]))
    return ret(st, mkstr(v))


@I.reg('(reflect.StructTag).Lookup')
def tag_lookup(it, st, args, fname):
    v, ok = parse_tag(py_str(args[0]), py_str(args[1]))
    return ret(st, (mkstr(v), ok))


def parse_tag(tag, key):
    # conventional format: key:"value" pairs separated by spaces (reflect.StructTag.Lookup)
    while tag:
        i = 0
        while i < len(tag) and tag[i] == ' ':
            i += 1
        tag = tag[i:]
        if not tag:
            break
        i = 0
        while i < len(tag) and tag[i] > ' ' and tag[i] != ':' and tag[i] != '"' and ord(tag[i]) != 0x7f:
            i += 1
        if i == 0 or i + 1 >= len(tag) or tag[i] != ':' or tag[i + 1] != '"':
            break
        name = tag[:i]
        tag = tag[i + 1:]
        i = 1
        while i < len(tag) and tag[i] != '"':
            if tag[i] == '\\':
                i += 1
            i += 1
        if i >= len(tag):
            break
        qvalue = tag[:i + 1]
        tag = tag[i + 1:]
        if key == name:
            try:
                import ast
                return ast.literal_eval(qvalue), True
            except Exception:
                return '', False
    return '', False


@I.reg('reflect.DeepEqual')
def r_deepequal(it, st, args, fname):
    raise Unsupported(fname)
