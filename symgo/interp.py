# symgo interpreter: region execution with merging at immediate post-dominators.
import time, itertools, json, os
import z3
import engine as E
from engine import *

PFX = 'github.com/tonkeeper/tongo/'
# globals that are zero-valued empty structs in the Go source (no initialiser to run)
ZERO_GLOBALS = {'encoding/binary.BigEndian', 'encoding/binary.LittleEndian'}


def short(n):
    return n.replace(PFX, '')


_UF_MEMO = {}


def has_uf(t):
    """does the term mention an uninterpreted hash/crypto function (names starting with UF_)?"""
    tid = t.get_id()
    r = _UF_MEMO.get(tid)
    if r is not None:
        return r[0] if isinstance(r, tuple) else r
    stack = [t]
    seen = set()
    found = False
    while stack:
        x = stack.pop()
        xid = x.get_id()
        if xid in seen:
            continue
        seen.add(xid)
        m = _UF_MEMO.get(xid)
        if isinstance(m, tuple):
            m = m[0]
        if m is True:
            found = True
            break
        if m is False:
            continue
        if z3.is_app(x):
            d = x.decl()
            if d.kind() == z3.Z3_OP_UNINTERPRETED and d.name().startswith('UF_'):
                found = True
                break
            stack.extend(x.children())
    if not found:
        for xid in seen:
            _UF_MEMO[xid] = False
    _UF_MEMO[tid] = (found, t)   # keep the term alive: z3 reuses ast ids of freed terms
    return found


class ForkRequest(Exception):
    """the current instruction needs `term` concrete: fork one state per feasible value (DESIGN 3.5)"""

    def __init__(s, term, reg, what):
        s.term, s.reg, s.what = term, reg, what


class ForkBool(Exception):
    """the current instruction needs `cond` decided: fork into cond / not cond and re-execute"""

    def __init__(s, cond, what):
        s.cond, s.what = cond, what


def subst_term(v, term, val):
    if isinstance(v, Ptr):
        return Ptr(v.obj, tuple(val if (is_sym(e) and e.eq(term)) else e for e in v.path))
    if isinstance(v, Slice):
        return Slice(v.obj, tuple(val if (is_sym(e) and e.eq(term)) else e for e in v.path),
                     val if (is_sym(v.off) and v.off.eq(term)) else v.off, v.len, v.cap)
    if is_sym(v) and v.eq(term):
        return val
    return v


def sizeof(t):
    x = ty(t)
    k = x['kind']
    if k == 'int':
        return x['bits'] // 8
    if k == 'bool':
        return 1
    if k in ('ptr', 'map', 'chan', 'func', 'unsafeptr', 'float'):
        return 8
    if k in ('iface', 'string'):
        return 16
    if k == 'slice':
        return 24
    if k == 'array':
        return x['len'] * sizeof(x['elem'])
    if k in ('struct', 'tuple'):
        return sum(sizeof(f['type']) for f in (x.get('fields') or []))
    return 8


class Ctx:
    """per-instance context: options, statistics, results"""

    def __init__(s, opts=None):
        o = opts or {}
        s.unwind = o.get('unwind', 1100)
        s.vc_timeout = o.get('vc_timeout', 120) * 1000
        s.feas_timeout = o.get('feas_timeout', 10) * 1000
        s.max_instrs = o.get('max_instrs', 30_000_000)
        s.alloc_limit = o.get('alloc_limit', 64)
        s.concretize_k = o.get('concretize_k', 48)
        s.allow_go = o.get("allow_go", False)
        s.progress_every = int(os.environ.get("PROGRESS", "20000"))
        s.fresh_feas = o.get('fresh_feas', True)
        s.concrete_clock = o.get('concrete_clock', False)
        # branch feasibility is decided WITHOUT the injectivity axioms of ideal hashes (an over-approximation:
        # at worst an infeasible path is explored; every VC and cover is decided with the axioms)
        s.feas_axioms = o.get('feas_axioms', False)
        s.hash_injective = o.get('hash_injective', False)
        s.axioms = []
        s.heap_strict = o.get('heap_strict', True)
        s.last_feas_solver = None
        s.instrs = 0
        s.solver_calls = 0
        s.solver_time = 0.0
        s.max_vc_ms = 0
        s.merges = 0
        s.forks = 0
        s.states = 1
        s.vcs = {}            # label -> record
        s.covers = {}         # label -> witness or None
        s.witnesses = []      # end-of-harness witnesses
        s.funcs = set()
        s.assumptions = set()
        s.concretizations = {}
        s.unsupported = []
        s.harness = ''
        s.solver = z3.Solver()
        s.solver.set('timeout', s.feas_timeout)
        s.objctr = itertools.count(1)
        s.obj_types = {}
        s.globals = {}
        s.init_heap = {}
        s.smt_export = []     # (label, smt2 text) for cross-checking
        s.export_every = o.get('export_every', 20)
        s.nvc_solved = 0
        s.trivial_vcs = 0
        s.verbose = o.get('verbose', False)
        s.deadline = None


class Interp:
    def __init__(s, ctx, intrinsics):
        s.ctx = ctx
        s.intr = intrinsics
        s.uf = {}

    # ---------------------------------------------------------- solver
    def check(s, pc, extra=None):
        c = s.ctx
        c.solver_calls += 1
        t = time.time()
        a = list(pc)
        if extra is not None:
            a.append(extra)
        if c.fresh_feas:
            fs = z3.Solver()
            fs.set('timeout', c.feas_timeout)
            fs.add(*a)
            r = fs.check()
            t1 = time.time()
            if r == z3.sat and c.axioms and c.feas_axioms and any(has_uf(x) for x in a):
                t2 = time.time()
                fs.add(*c.axioms)
                r = fs.check()
                if c.verbose and time.time() - t > 2:
                    print(f'   (first check {t1 - t:.2f}s, has_uf {t2 - t1:.2f}s, with {len(c.axioms)} axioms {time.time() - t2:.2f}s; uf in: {[i for i, x in enumerate(a) if has_uf(x)]} of {len(a)})', flush=True)
            c.last_feas_solver = fs
        else:
            r = c.solver.check(*a)
            c.last_feas_solver = c.solver
        dt = time.time() - t
        c.solver_time += dt
        if c.verbose and dt > 2:
            print(f'   slow feasibility check {dt:.1f}s -> {r} pc={len(pc)} instrs={c.instrs}', flush=True)
        if c.deadline and time.time() > c.deadline:
            raise Inconclusive('instance time budget exceeded')
        return r

    def feasible(s, pc, cnd):
        return s.check(pc, cnd) != z3.unsat

    def model_of(s, st, extra=None):
        """fresh solve of the path condition; returns model dict or None"""
        c = s.ctx
        fs = z3.Solver()
        fs.set('timeout', c.vc_timeout)
        fs.add(*st.pc)
        if extra is not None:
            fs.add(extra)
        c.solver_calls += 1
        t = time.time()
        r = fs.check()
        if r == z3.sat and c.axioms and (any(has_uf(x) for x in st.pc) or (extra is not None and has_uf(extra))):
            fs.add(*c.axioms)
            r = fs.check()
        c.solver_time += time.time() - t
        if r == z3.sat:
            return s.extract(st, fs.model())
        return None if r == z3.unsat else 'unknown'

    def diverse_models(s, st, seed, count=2, picks=24):
        """models of the path condition with randomly pinned inputs (for differential validation)"""
        import random
        rnd = random.Random(seed)
        out = []
        names = sorted(st.ndvals.keys())
        for k in range(count):
            sv = z3.Solver()
            sv.set('timeout', 3000)
            sv.add(*st.pc)
            sv.add(*s.ctx.axioms)
            if sv.check() != z3.sat:
                break
            order = names[:]
            rnd.shuffle(order)
            for nm in order[:picks]:
                t = st.ndvals[nm]
                if z3.is_bool(t):
                    c = t if rnd.random() < 0.5 else z3.Not(t)
                else:
                    w = t.size()
                    r = rnd.random()
                    val = rnd.getrandbits(rnd.randint(1, w)) if r < 0.7 else (0 if r < 0.8 else ((1 << w) - 1 if r < 0.9 else rnd.getrandbits(w)))
                    c = t == val
                    sv.push()
                    sv.add(c)
                    if sv.check() == z3.sat:
                        continue
                    sv.pop()
                    c = z3.UGE(t, val) if rnd.random() < 0.5 else z3.ULE(t, val)
                sv.push()
                sv.add(c)
                if sv.check() != z3.sat:
                    sv.pop()
            if sv.check() == z3.sat:
                out.append(s.extract(st, sv.model()))
        return out

    def extract(s, st, m):
        nd = {}
        for name, term in st.ndvals.items():
            v = m.eval(term, model_completion=True)
            if z3.is_bool(v):
                nd[name] = 1 if z3.is_true(v) else 0
            else:
                nd[name] = v.as_long()
        obs = []
        for lab, term, _t in st.observes:
            obs.append([lab, s.evalv(m, term)])
        return {'nondet': nd, 'observes': obs}

    def evalv(s, m, term):
        if isinstance(term, (list, tuple)):
            return [s.evalv(m, x) for x in term]
        if isinstance(term, Str):
            return [s.evalv(m, x) for x in term.b]
        if is_sym(term):
            v = m.eval(term, model_completion=True)
            if z3.is_bool(v):
                return 1 if z3.is_true(v) else 0
            return v.as_long()
        if isinstance(term, bool):
            return 1 if term else 0
        return term

    def vc(s, st, cond, label, info=None):
        """cond must hold on every input reaching here.  Violations are recorded with a model,
        then assumed away (continue-under-assumption)."""
        c = s.ctx
        if cond is True:
            c.trivial_vcs += 1
            return
        label = c.harness + '/' + label
        rec = c.vcs.get(label)
        if rec is None:
            rec = c.vcs[label] = {'n': 0, 'solved': 0, 'status': 'unsat', 'ms': 0, 'model': None,
                                  'info': {k: v for k, v in (info or {}).items() if k != 'prefer'} or None}
        rec['n'] += 1
        cond = to_bool(cond)
        if cond is True:
            return
        if cond is False:
            m = s.model_of(st)
            if m is None:
                raise PathEnd()
            if m == 'unknown':
                rec['status'] = 'unknown' if rec['status'] == 'unsat' else rec['status']
                raise PathEnd()
            if rec['status'] != 'sat':
                rec['status'] = 'sat'
                rec['model'] = m
            raise PathEnd()
        t_ = time.time()
        fs = z3.Solver()
        fs.set('timeout', c.vc_timeout)
        fs.add(*st.pc)
        fs.add(z3.Not(cond))
        c.solver_calls += 1
        r = fs.check()
        if r == z3.sat and c.axioms and (has_uf(cond) or any(has_uf(x) for x in st.pc)):
            fs.add(*c.axioms)
            r = fs.check()
        dt = time.time() - t_
        c.solver_time += dt
        ms = int(dt * 1000)
        rec['ms'] += ms
        rec['solved'] += 1
        c.max_vc_ms = max(c.max_vc_ms, ms)
        c.nvc_solved += 1
        if c.export_every and c.nvc_solved % c.export_every == 1 and len(c.smt_export) < 40 and r != z3.unknown:
            try:
                c.smt_export.append((label, str(r), fs.to_smt2()))
            except Exception:
                pass
        if c.verbose and dt > 5:
            print(f'   slow VC {label} {dt:.1f}s -> {r}', flush=True)
        if r == z3.sat:
            if rec['status'] != 'sat':
                rec['status'] = 'sat'
                rec['model'] = s.extract(st, fs.model())
                if info and info.get('prefer') is not None:
                    # a more dramatic witness if there is one (e.g. a huge allocation)
                    fs.add(info['prefer'])
                    if fs.check() == z3.sat:
                        rec['model'] = s.extract(st, fs.model())
                    else:
                        info = dict(info, alloc_bytes=0)
                rec['info'] = {k: v for k, v in (info or {}).items() if k != 'prefer'}
            st.pc.append(cond)
            if not s.feasible(st.pc, None):
                raise PathEnd()
        elif r == z3.unknown:
            if rec['status'] == 'unsat':
                rec['status'] = 'unknown'
        if c.deadline and time.time() > c.deadline:
            raise Inconclusive('instance time budget exceeded')

    def violated(s, st, label, info=None):
        """unconditional violation at this point (if the path is feasible); ends the path"""
        s.vc(st, False, label, info)

    # ---------------------------------------------------------- objects
    def new_obj(s, st, val, t):
        oid = next(s.ctx.objctr)
        st.heap[oid] = val
        s.ctx.obj_types[oid] = t
        return oid

    def load(s, st, ptr, label='deref', reg=None):
        if ptr is None:
            s.violated(st, label)
        try:
            v, _ = get_path(st.heap[ptr.obj], ptr.path, s.ctx.obj_types[ptr.obj])
        except Unmergeable:
            sym = [e for e in ptr.path if is_sym(e)]
            if reg is None or not sym:
                raise Unsupported('load of non-mergeable value through a symbolic place')
            raise ForkRequest(sym[0], reg, 'load through symbolic index')
        return v

    def store(s, st, ptr, val, label='store', reg=None):
        if ptr is None:
            s.violated(st, label)
        try:
            st.heap[ptr.obj] = set_path(st.heap[ptr.obj], ptr.path, val, s.ctx.obj_types[ptr.obj])
        except Unmergeable:
            sym = [e for e in ptr.path if is_sym(e)]
            if reg is None or not sym:
                raise Unsupported('store of non-mergeable value through a symbolic place')
            raise ForkRequest(sym[0], reg, 'store through symbolic index')

    def enum_values(s, st, term, what):
        """all feasible values of term under the path condition (at most concretize_k)"""
        c = s.ctx
        sv = z3.Solver()
        sv.set('timeout', c.vc_timeout)
        sv.add(*st.pc)
        sv.add(*c.axioms)
        vals = []
        while True:
            c.solver_calls += 1
            r = sv.check()
            if r == z3.unsat:
                break
            if r != z3.sat:
                raise Inconclusive('solver unknown while concretising ' + what)
            v = sv.model().eval(term, model_completion=True).as_long()
            vals.append(v)
            if len(vals) > c.concretize_k:
                raise Unsupported(f'more than {c.concretize_k} feasible values while concretising {what}')
            sv.add(term != v)
        c.concretizations[what] = max(c.concretizations.get(what, 0), len(vals))
        return sorted(vals)

    def global_obj(s, name, st):
        g = s.ctx.globals
        if name not in g:
            gi = E.D['globals'][name]
            oid = next(s.ctx.objctr)
            g[name] = oid
            et = ty(gi['type'])['elem']
            s.ctx.obj_types[oid] = et
            s.ctx.init_heap[oid] = zero(et)
            pk = gi['pkg']
            if name == 'crypto/rand.Reader':
                # the system random source: an opaque reader whose Read yields fresh nondeterministic bytes
                s.ctx.init_heap[oid] = Iface('$randreader', None)
            elif pk and pk not in s.ctx.inited_pkgs and not s.ctx.in_init and name not in ZERO_GLOBALS:
                raise Unsupported(f'global {name} of package {pk} whose initialiser was not run (add to init_pkgs)')
        oid = g[name]
        if oid not in st.heap:
            st.heap[oid] = s.ctx.init_heap[oid]
        return oid

    # slices
    def slice_elems(s, st, sl):
        """(backing array value, elem type)"""
        v, t = get_path(st.heap[sl.obj], sl.path, s.ctx.obj_types[sl.obj])
        return v, ty(t)['elem']

    def slice_get(s, st, sl, i):
        arr, et = s.slice_elems(st, sl)
        idx = simp_i(add64(sl.off, i))
        v, _ = get_path(arr, (idx,), arr_type(et, len(arr)))
        return v

    def slice_set(s, st, sl, i, val):
        idx = simp_i(add64(sl.off, i))
        p = Ptr(sl.obj, sl.path + (idx,))
        s.store(st, p, val)

    def make_slice(s, st, et, vals):
        n = len(vals)
        oid = s.new_obj(st, tuple(vals), arr_type(et, n))
        return Slice(oid, (), 0, n, n)

    def slice_values(s, st, sl, what='slice'):
        """concrete-length list of element values"""
        n = s.concrete_int(st, sl.len, what + ' length')
        return [s.slice_get(st, sl, i) for i in range(n)]

    def concrete_int(s, st, v, what):
        if not is_sym(v):
            return tosigned(v, 64) if v >> 63 else v
        v2 = simp(v)
        if not is_sym(v2) or z3.is_bv_value(v2):
            return v2.as_long() if is_sym(v2) else v2
        # unique value under the path condition?
        m = s.check(st.pc)
        if m == z3.sat:
            val = s.ctx.last_feas_solver.model().eval(v, model_completion=True)
            if s.check(st.pc, v != val) == z3.unsat:
                return val.as_long()
        raise Unsupported('symbolic ' + what)

    # ---------------------------------------------------------- operands
    def operand(s, fr, a, st):
        k = a[0]
        if k == 'r':
            return fr.regs[a[2:]]
        if k == 'c':
            _, t, v = a.split('|', 2)
            x = ty(t)
            if v == 'nil':
                return zero(t)
            kk = x['kind']
            if kk == 'int':
                return mask(int(v), x['bits'])
            if kk == 'bool':
                return v == 'true'
            if kk == 'string':
                import base64
                return Str(base64.b64decode(json.loads(v[1:])))
            if kk == 'float':
                if v[0] == 'f':
                    return float(v[1:])
                return float(int(v))
            raise Unsupported('const ' + a)
        if k == 'f':
            return FuncVal(a[2:])
        if k == 'g':
            return Ptr(s.global_obj(a[2:], st))
        if k == 'b':
            return Builtin(a[2:])
        if k == 'v':
            return fr.regs['$fv_' + a[2:]]
        raise Unsupported('operand ' + a)

    def opnd_type(s, fr, a):
        if a[0] == 'c':
            return a.split('|', 2)[1]
        if a[0] == 'r':
            return fr.fn['_regtypes'].get(a[2:])
        if a[0] == 'v':
            return fr.fn['_regtypes'].get('$fv_' + a[2:])
        return None

    def lbl(s, fr, ins, kind=None):
        return f"{short(fr.fn['name'])}:{kind or ins.get('_kind', ins['op'].lower())}:{ins.get('_ord', 0)}"

    # ---------------------------------------------------------- calls
    def call(s, st, fname, args, caps=()):
        """returns list of (state, result)"""
        f = E.FUNCS.get(fname)
        if f is not None and f['external'] and fname.endswith('.init') and not f.get('params'):
            return [(st, None)]
        h = s.intr.lookup(fname)
        if h is not None:
            r = h(s, st, args, fname)
            return r
        if f is None:
            raise Unsupported('function not dumped: ' + fname)
        if f['external']:
            if fname.endswith('.init') and not f.get('params'):
                return [(st, None)]
            raise Unsupported('extern ' + fname)
        c = s.ctx
        c.funcs.add(fname)
        regs = {}
        for p, a in zip(f['params'] or [], args):
            regs[p] = a
        for p, a in zip(f['freevars'] or [], caps):
            regs['$fv_' + p] = a
        fr = Frame(f, regs)
        try:
            arrived, left = s.run_region(st, fr, 0, None, len(f['blocks']))
        except PathEnd:
            return []
        res = []
        for o in left:
            if o.kind == 'return':
                res.append((o.state, o.vals))
            else:
                raise Unsupported(o.what)
        return s.merge_returns(res, f)

    def merge_returns(s, res, f):
        if len(res) <= 1:
            return res
        rts = tuple(f['results'] or [])

        def key(vals):
            k = []
            vs = vals if len(rts) > 1 else (vals,)
            for t, v in zip(rts, vs):
                if ty(t)['kind'] == 'iface':
                    k.append(v is None if not isinstance(v, Iface) else v.t)
            return tuple(k)
        groups = {}
        for stt, vals in res:
            groups.setdefault(key(vals), []).append((stt, vals))
        out = []
        for g in groups.values():
            if len(rts) == 0:
                g2 = [(stt, ((), ())) for stt, v in g]
            elif len(rts) == 1:
                g2 = [(stt, ((v,), rts)) for stt, v in g]
            else:
                g2 = [(stt, (v, rts)) for stt, v in g]
            for stt, v in s.try_merge(g2):
                vals = v[0]
                out.append((stt, None if len(rts) == 0 else vals[0] if len(rts) == 1 else tuple(vals)))
        return out

    def try_merge(s, items):
        """items: list of (state, (vals, types)); merge pairwise where possible"""
        if len(items) <= 1:
            return items
        cur = items[0]
        rest = []
        for it in items[1:]:
            m = s.merge2(cur, it)
            if m is None:
                rest.append(it)
            else:
                cur = m
        return [cur] + (s.try_merge(rest) if len(rest) > 1 else rest)

    def merge_obj(s, ca, va, vb, t):
        if isinstance(t, tuple):
            if t[0] == 'MAP':
                if len(va[1]) != len(vb[1]):
                    raise Unmergeable()
                ents = []
                for (ka, xa, ga), (kb, xb, gb) in zip(va[1], vb[1]):
                    ents.append((merge_typed(ca, ka, kb, t[1]), merge_typed(ca, xa, xb, t[2]), merge_typed(ca, ga, gb, 'bool')))
                return ('MAP', tuple(ents))
            if t[0] == 'CH':
                if va[1] != vb[1] or len(va[2]) != len(vb[2]) or va[3] != vb[3]:
                    raise Unmergeable()
                return ('CH', va[1], tuple(merge_typed(ca, p, q, t[1]) for p, q in zip(va[2], vb[2])), va[3])
            if va == vb:
                return va
            raise Unmergeable()
        return merge_typed(ca, va, vb, t)

    def merge2(s, A, B):
        (sa, (va, ta)), (sb, (vb, tb)) = A, B
        n = 0
        la, lb = len(sa.pc), len(sb.pc)
        while n < la and n < lb and sa.pc[n] is sb.pc[n]:
            n += 1
        da = sa.pc[n:]
        db = sb.pc[n:]
        ca = z3.And(*da) if len(da) > 1 else (da[0] if da else z3.BoolVal(True))
        cb = z3.And(*db) if len(db) > 1 else (db[0] if db else z3.BoolVal(True))
        ot = s.ctx.obj_types
        try:
            heap = dict(sa.heap)
            E.HEAP_STRICT[0] = s.ctx.heap_strict
            for k, vb_ in sb.heap.items():
                if k not in heap:
                    heap[k] = vb_
                else:
                    va_ = heap[k]
                    if va_ is not vb_:
                        if isinstance(k, tuple):
                            if k[0] == 'HASHAPPS':
                                seen = set(id(x) for x in va_)
                                heap[k] = va_ + tuple(x for x in vb_ if id(x) not in seen)
                            elif va_ != vb_:
                                raise Unmergeable()
                        else:
                            heap[k] = s.merge_obj(ca, va_, vb_, ot[k])
            E.HEAP_STRICT[0] = False
            val = tuple(merge_typed(ca, p, q, t) for p, q, t in zip(va, vb, ta))
        except Unmergeable:
            E.HEAP_STRICT[0] = False
            return None
        s.ctx.merges += 1
        ns = State()
        ns.pc = sa.pc[:n]
        disj = z3.simplify(z3.Or(ca, cb))
        if not z3.is_true(disj):
            ns.pc.append(disj)
        ns.heap = heap
        ns.ndvals = sa.ndvals
        nd = dict(sa.nd)
        for k, v in sb.nd.items():
            if nd.get(k, 0) < v:
                nd[k] = v
        ns.nd = nd
        ns.alloc_limit = sa.alloc_limit
        if sa.observes is sb.observes:
            ns.observes = sa.observes
        else:
            obs = []
            for oa, ob in zip(sa.observes, sb.observes):
                if oa is ob:
                    obs.append(oa)
                    continue
                if oa[0] != ob[0] or oa[2] != ob[2]:
                    break
                try:
                    if isinstance(oa[1], tuple):
                        if len(oa[1]) != len(ob[1]):
                            break
                        obs.append((oa[0], tuple(merge_typed(ca, x, y, oa[2]) for x, y in zip(oa[1], ob[1])), oa[2]))
                    else:
                        obs.append((oa[0], merge_typed(ca, oa[1], ob[1], oa[2]), oa[2]))
                except Unmergeable:
                    break
            ns.observes = tuple(obs)
        return (ns, (val, ta))

    # ---------------------------------------------------------- region execution
    def run_region(s, st, fr, blk, pred, stop, start=0, skip_phi=False):
        """execute from blk until control reaches block `stop`.
        returns (arrived [(state, pred, frame)], left [Outcome])"""
        f = fr.fn
        c = s.ctx
        first = True
        blocks = f['blocks']
        while True:
            if blk == stop and not (first and (start or skip_phi)):
                return [(st, pred, fr)], []
            b = blocks[blk]
            if not (first and (start or skip_phi)):
                newvals = {}
                idx = None
                for ins in b['instrs']:
                    if ins['op'] != 'Phi':
                        break
                    if idx is None:
                        idx = b['preds'].index(pred)
                    newvals[ins['reg']] = s.operand(fr, ins['args'][idx], st)
                if newvals:
                    fr.regs.update(newvals)
            instrs = b['instrs']
            ii = start if first else 0
            first = False
            start = 0
            nin = len(instrs)
            while ii < nin:
                ins = instrs[ii]
                ii += 1
                op = ins['op']
                if op == 'Phi':
                    continue
                c.instrs += 1
                if c.instrs > c.max_instrs:
                    raise Inconclusive('instruction budget exceeded')
                if c.verbose and c.instrs % c.progress_every == 0:
                    print(f'   progress instrs={c.instrs} forks={c.forks} merges={c.merges} calls={c.solver_calls} solver_s={c.solver_time:.1f} fn={f["name"][-40:]} blk={blk}', flush=True)
                if op == 'Jump':
                    pred, blk = blk, b['succs'][0]
                    break
                if op == 'If':
                    cnd = to_bool(s.operand(fr, ins['args'][0], st))
                    if cnd is True:
                        pred, blk = blk, b['succs'][0]
                        break
                    if cnd is False:
                        pred, blk = blk, b['succs'][1]
                        break
                    if c.verbose and os.environ.get('DBGCOND'):
                        print(f'   symbolic branch in {short(f["name"])} block {blk} cond {str(cnd)[:300]}', flush=True)
                    ft = s.feasible(st.pc, cnd)
                    ff = s.feasible(st.pc, z3.Not(cnd))
                    if ft and not ff:
                        pred, blk = blk, b['succs'][0]
                        break
                    if ff and not ft:
                        pred, blk = blk, b['succs'][1]
                        break
                    if not ft and not ff:
                        raise PathEnd()
                    J = b['ipdom']
                    fr.iters[blk] = fr.iters.get(blk, 0) + 1
                    if fr.iters[blk] > c.unwind:
                        raise Inconclusive(f'unwinding bound {c.unwind} reached in {short(f["name"])} block {blk}')
                    c.forks += 1
                    c.states += 1
                    st2 = st.fork()
                    st.pc.append(cnd)
                    st2.pc.append(z3.Not(cnd))
                    fr2 = Frame(f, dict(fr.regs))
                    fr2.iters = fr.iters
                    fr2.defers = list(fr.defers)
                    saved_iters = dict(fr.iters)
                    arrived, left = [], []
                    for (sst, ffr, succ) in ((st, fr, b['succs'][0]), (st2, fr2, b['succs'][1])):
                        try:
                            a1, l1 = s.run_region(sst, ffr, succ, blk, J)
                            arrived += a1
                            left += l1
                        except PathEnd:
                            pass
                    if not arrived:
                        return [], left
                    if J == stop or J >= len(blocks):
                        return arrived, left
                    merged = s.merge_at(f, J, arrived)
                    outA, outL = [], left
                    for (mst, mpred, mfr) in merged:
                        mfr.iters = dict(saved_iters)
                        try:
                            a, l = s.run_region(mst, mfr, J, mpred, stop, skip_phi=True)
                            outA += a
                            outL += l
                        except PathEnd:
                            pass
                    return outA, outL
                if op == 'Return':
                    vals = tuple(s.operand(fr, a, st) for a in (ins.get('args') or []))
                    if len(vals) == 1:
                        vals = vals[0]
                    elif len(vals) == 0:
                        vals = None
                    return [], [Outcome('return', st, vals)]
                if op == 'Panic':
                    s.violated(st, s.lbl(fr, ins))
                if op == 'Call' or op == 'Select':
                    r = s.do_call(st, fr, ins) if op == 'Call' else s.do_select(st, fr, ins)
                    if not r:
                        raise PathEnd()
                    if len(r) == 1:
                        st, v = r[0]
                        if ins.get('reg'):
                            fr.regs[ins['reg']] = v
                        continue
                    outA, outL = [], []
                    c.states += len(r) - 1
                    for (cst, v) in r:
                        frc = Frame(f, dict(fr.regs))
                        frc.iters = dict(fr.iters)
                        frc.defers = list(fr.defers)
                        if ins.get('reg'):
                            frc.regs[ins['reg']] = v
                        try:
                            a, l = s.run_region(cst, frc, blk, pred, stop, start=ii)
                            outA += a
                            outL += l
                        except PathEnd:
                            pass
                    return outA, outL
                if op == 'RunDefers':
                    for callee, args in reversed(fr.defers):
                        r = s.call_value(st, callee, args)
                        if len(r) != 1:
                            raise Unsupported('deferred call forks')
                        st = r[0][0]
                    fr.defers = []
                    continue
                try:
                    s.step(st, fr, ins)
                except ForkBool as e:
                    outA, outL = [], []
                    c.forks += 1
                    c.states += 1
                    for cnd in (e.cond, z3.Not(e.cond)):
                        cst = st.fork()
                        cst.pc.append(cnd)
                        if not s.feasible(cst.pc, None):
                            continue
                        frc = Frame(f, dict(fr.regs))
                        frc.iters = dict(fr.iters)
                        frc.defers = list(fr.defers)
                        try:
                            a, l = s.run_region(cst, frc, blk, pred, stop, start=ii - 1, skip_phi=True)
                            outA += a
                            outL += l
                        except PathEnd:
                            pass
                    return outA, outL
                except ForkRequest as e:
                    vals = s.enum_values(st, e.term, e.what + ' in ' + short(f['name']))
                    outA, outL = [], []
                    c.states += max(0, len(vals) - 1)
                    c.forks += 1
                    for v in vals:
                        cst = st.fork()
                        cst.pc.append(e.term == v)
                        frc = Frame(f, dict(fr.regs))
                        frc.iters = dict(fr.iters)
                        frc.defers = list(fr.defers)
                        frc.regs[e.reg] = subst_term(frc.regs[e.reg], e.term, v)
                        try:
                            a, l = s.run_region(cst, frc, blk, pred, stop, start=ii - 1, skip_phi=True)
                            outA += a
                            outL += l
                        except PathEnd:
                            pass
                    return outA, outL
            else:
                raise Exception('block fell through: ' + f['name'])

    def merge_at(s, f, J, arrived):
        """arrived: list of (state, pred, frame). Evaluate J's phis per arrival then merge states,
        merging every register that differs (DESIGN A.3)."""
        b = f['blocks'][J]
        if len(arrived) == 1:
            st, pred, fr = arrived[0]
            idx = b['preds'].index(pred)
            nv = {}
            for ins in b['instrs']:
                if ins['op'] != 'Phi':
                    break
                nv[ins['reg']] = s.operand(fr, ins['args'][idx], st)
            fr.regs.update(nv)
            return [(st, pred, fr)]
        items = []
        for (st, pred, fr) in arrived:
            idx = b['preds'].index(pred)
            phivals = {}
            for ins in b['instrs']:
                if ins['op'] != 'Phi':
                    break
                phivals[ins['reg']] = s.operand(fr, ins['args'][idx], st)
            fr.regs.update(phivals)
            items.append((st, pred, fr))
        cur = items[0]
        outs = []
        for it in items[1:]:
            m = s.merge_frames(f, cur, it)
            if m is None:
                outs.append(it)
            else:
                cur = m
        outs.insert(0, cur)
        if len(outs) > 2:
            # second chance among the rest
            rest = outs[1:]
            outs = [outs[0]]
            while rest:
                x = rest.pop(0)
                merged = False
                for i, y in enumerate(outs[1:], 1):
                    m = s.merge_frames(f, y, x)
                    if m is not None:
                        outs[i] = m
                        merged = True
                        break
                if not merged:
                    outs.append(x)
        return outs

    def merge_frames(s, f, A, B):
        (sa, pa, fa), (sb, pb, fb) = A, B
        rt = f['_regtypes']
        keys, types, va, vb = [], [], [], []
        ra, rb = fa.regs, fb.regs
        if len(fa.defers) != len(fb.defers):
            return None
        for r, x in ra.items():
            if r in rb:
                y = rb[r]
                if y is x:
                    continue
                if not is_sym(x) and not is_sym(y) and isinstance(x, (int, bool, float)) and isinstance(y, (int, bool, float)) and x == y:
                    continue
                t = rt.get(r)
                if t is None:
                    return None
                keys.append(r)
                types.append(t)
                va.append(x)
                vb.append(y)
        m = s.merge2((sa, (tuple(va), tuple(types))), (sb, (tuple(vb), tuple(types))))
        if m is None:
            return None
        ns, (val, _) = m
        nr = dict(ra)
        for r, v in zip(keys, val):
            nr[r] = v
        nf = Frame(f, nr)
        nf.defers = fa.defers
        nf.iters = fa.iters
        return (ns, pa, nf)

    # ---------------------------------------------------------- single instruction
    def step(s, st, fr, ins):
        op = ins['op']
        R = fr.regs
        A = ins.get('args', [])
        if op == 'BinOp':
            R[ins['reg']] = s.binop(st, fr, ins)
        elif op == 'UnOp':
            x = s.operand(fr, A[0], st)
            o = ins['x']['op']
            if o == '*':
                R[ins['reg']] = s.load(st, x, s.lbl(fr, ins), A[0][2:] if A[0][0] == 'r' else None)
            elif o == '!':
                R[ins['reg']] = Not(x)
            elif o == '-':
                tt = ty(ins['type'])
                if tt['kind'] == 'float':
                    R[ins['reg']] = -x
                else:
                    bits = tt['bits']
                    R[ins['reg']] = mask(-x, bits) if not is_sym(x) else -x
            elif o == '^':
                bits = ty(ins['type'])['bits']
                R[ins['reg']] = mask(~x, bits) if not is_sym(x) else ~x
            elif o == '<-':
                R[ins['reg']] = s.chan_recv(st, fr, ins, x)
            else:
                raise Unsupported('unop ' + o)
        elif op == 'Alloc':
            et = ins['x']['elem']
            R[ins['reg']] = Ptr(s.new_obj(st, zero(et), et))
        elif op == 'Store':
            p = s.operand(fr, A[0], st)
            v = s.operand(fr, A[1], st)
            s.store(st, p, v, s.lbl(fr, ins), A[0][2:] if A[0][0] == 'r' else None)
        elif op == 'FieldAddr':
            p = s.operand(fr, A[0], st)
            if p is None:
                s.violated(st, s.lbl(fr, ins))
            R[ins['reg']] = Ptr(p.obj, p.path + (ins['x'],))
        elif op == 'Field':
            R[ins['reg']] = s.operand(fr, A[0], st)[ins['x']]
        elif op == 'IndexAddr':
            x = s.operand(fr, A[0], st)
            i = s.index_val(fr, A[1], st, ins['x']['it'])
            xt = ty(ins['x']['xt'])
            if xt['kind'] == 'slice':
                s.vc(st, And(sge(i, 0), slt(i, x.len)), s.lbl(fr, ins))
                idx = simp_i(add64(x.off, i))
                R[ins['reg']] = Ptr(x.obj, x.path + (idx,))
            else:  # pointer to array
                if x is None:
                    s.violated(st, s.lbl(fr, ins, 'deref'))
                n = ty(xt['elem'])['len']
                s.vc(st, And(sge(i, 0), slt(i, n)), s.lbl(fr, ins))
                R[ins['reg']] = Ptr(x.obj, x.path + (simp_i(i),))
        elif op == 'Index':
            x = s.operand(fr, A[0], st)
            i = s.index_val(fr, A[1], st, ins['x']['it'])
            if isinstance(x, Str):
                s.vc(st, And(sge(i, 0), slt(i, len(x.b))), s.lbl(fr, ins))
                i = simp_i(i)
                if is_sym(i):
                    r = x.b[-1]
                    for j in range(len(x.b) - 2, -1, -1):
                        r = ite_bv(i == j, x.b[j], r, 8)
                    R[ins['reg']] = r
                else:
                    R[ins['reg']] = x.b[i]
                return
            s.vc(st, And(sge(i, 0), slt(i, len(x))), s.lbl(fr, ins))
            v, _ = get_path(x, (simp_i(i),), ins['x']['xt'])
            R[ins['reg']] = v
        elif op == 'Lookup':
            s.lookup(st, fr, ins)
        elif op == 'Slice':
            s.do_slice(st, fr, ins)
        elif op == 'MakeSlice':
            ln = s.index_val(fr, A[0], st, s.opnd_type(fr, A[0]))
            cp = s.index_val(fr, A[1], st, s.opnd_type(fr, A[1]))
            et = ty(ins['type'])['elem']
            R[ins['reg']] = s.alloc_slice(st, et, ln, cp, s.lbl(fr, ins))
        elif op == 'Convert':
            R[ins['reg']] = s.convert(st, fr, ins)
        elif op in ('ChangeType', 'ChangeInterface'):
            R[ins['reg']] = s.operand(fr, A[0], st)
        elif op == 'Extract':
            R[ins['reg']] = s.operand(fr, A[0], st)[ins['x']]
        elif op == 'MakeInterface':
            R[ins['reg']] = Iface(ins['x'], s.operand(fr, A[0], st))
        elif op == 'MakeClosure':
            fn = s.operand(fr, A[0], st)
            R[ins['reg']] = FuncVal(fn.name, tuple(s.operand(fr, a, st) for a in A[1:]))
        elif op == 'Defer':
            callee = s.callee_of(st, fr, ins)
            fr.defers.append(callee)
        elif op == 'TypeAssert':
            s.type_assert(st, fr, ins)
        elif op == 'MakeMap':
            mt = ty(ins['type'])
            R[ins['reg']] = Ptr(s.new_obj(st, ('MAP', ()), ('MAP', mt['key'], mt['elem'])))
        elif op == 'MapUpdate':
            m = s.operand(fr, A[0], st)
            k = s.operand(fr, A[1], st)
            v = s.operand(fr, A[2], st)
            if m is None:
                s.violated(st, s.lbl(fr, ins))
            s.map_update(st, m, k, v)
        elif op == 'MakeChan':
            cp = s.operand(fr, A[0], st)
            cp = s.concrete_int(st, cp, 'channel capacity')
            R[ins['reg']] = Ptr(s.new_obj(st, ('CH', cp, (), False), ('CH', ty(ins['type'])['elem'])))
        elif op == 'Send':
            ch = s.operand(fr, A[0], st)
            v = s.operand(fr, A[1], st)
            if ch is None:
                s.violated(st, s.lbl(fr, ins, 'send-nil-chan'))
            _, cp, items, closed = st.heap[ch.obj]
            if closed:
                s.violated(st, s.lbl(fr, ins, 'send-closed'))
            if len(items) >= cp:
                s.violated(st, s.lbl(fr, ins, 'would-block-send'))
            st.heap[ch.obj] = ('CH', cp, items + (v,), closed)
        elif op == 'Range':
            x = s.operand(fr, A[0], st)
            xt = ty(ins['x'])
            if xt['kind'] == 'string':
                R[ins['reg']] = Ptr(s.new_obj(st, ('SITER', x, 0), ('ITER',)))
            else:
                if x is None:
                    ents = ()
                else:
                    ents = st.heap[x.obj][1]
                live = []
                for (k, v, g) in ents:
                    g = to_bool(g)
                    if g is False:
                        continue
                    if g is not True:
                        if not s.feasible(st.pc, g):
                            continue
                        if s.feasible(st.pc, z3.Not(g)):
                            raise ForkBool(g, 'map membership in range')
                    live.append((k, v))
                R[ins['reg']] = Ptr(s.new_obj(st, ('ITER', tuple(live), 0), ('ITER',)))
        elif op == 'Next':
            it_ = s.operand(fr, A[0], st)
            o = st.heap[it_.obj]
            if o[0] == 'SITER':
                _, sv, pos = o
                if pos < len(sv.b):
                    ch = sv.b[pos]
                    if is_sym(ch):
                        a = z3.ULT(ch, 0x80)
                        s.ctx.assumptions.add('range over string: symbolic bytes assumed ASCII (<0x80)')
                        st.pc.append(a)
                        if not s.feasible(st.pc, None):
                            raise PathEnd()
                        r = z3.ZeroExt(24, ch)
                        n = 1
                    else:
                        bs = bytes(x for x in sv.b[pos:pos + 4] if not is_sym(x))
                        n = 1
                        r = 0xFFFD
                        for ln in (1, 2, 3, 4):
                            try:
                                r = ord(bs[:ln].decode('utf-8'))
                                n = ln
                                break
                            except Exception:
                                pass
                    st.heap[it_.obj] = ('SITER', sv, pos + n)
                    R[ins['reg']] = (True, pos, r)
                else:
                    R[ins['reg']] = (False, 0, 0)
            else:
                _, items, pos = o
                if pos < len(items):
                    st.heap[it_.obj] = ('ITER', items, pos + 1)
                    R[ins['reg']] = (True, items[pos][0], items[pos][1])
                else:
                    tt = ty(ins['type'])['fields']
                    R[ins['reg']] = (False, zero(tt[1]['type']) if tt[1]['type'] in E.TYPES and ty(tt[1]['type'])['kind'] != 'other' else None,
                                     zero(tt[2]['type']) if tt[2]['type'] in E.TYPES else None)
        elif op == 'SliceToArrayPointer':
            x = s.operand(fr, A[0], st)
            n = ty(ty(ins['type'])['elem'])['len']
            s.vc(st, sge(x.len, n), s.lbl(fr, ins))
            off = s.concrete_int(st, x.off, 'slice-to-array offset')
            arr, et = s.slice_elems(st, x) if x.obj is not None else ((), None)
            if off == 0 and len(arr) == n:
                R[ins['reg']] = Ptr(x.obj, x.path)
            else:
                raise Unsupported('slice to array pointer view')
        elif op == 'Go':
            if not s.ctx.allow_go:
                raise Unsupported('go statement')
        elif op == 'Select':
            raise Unsupported('select statement')
        else:
            raise Unsupported('op ' + op)

    def index_val(s, fr, a, st, it):
        i = s.operand(fr, a, st)
        x = ty(it)
        if x['kind'] == 'int' and x['bits'] < 64:
            i = conv_int(i, x['bits'], x.get('signed', False), 64)
        elif x['kind'] == 'int' and not x.get('signed', False) and x['bits'] == 64:
            pass  # uint64 index >= 2^63 is out of range for any real slice: the signed test below rejects it
        return i

    def alloc_slice(s, st, et, ln, cp, label):
        if is_sym(ln) or is_sym(cp):
            ln2, cp2 = simp(bv(ln, 64)), simp(bv(cp, 64))
            if z3.is_bv_value(ln2) and z3.is_bv_value(cp2):
                ln, cp = ln2.as_long(), cp2.as_long()
        if is_sym(ln) or is_sym(cp):
            lim = st.alloc_limit if st.alloc_limit is not None else s.ctx.alloc_limit
            s.vc(st, And(And(sge(ln, 0), sle(ln, cp)), sle(cp, lim)), label,
                 {'alloc': True, 'alloc_bytes': max(lim, 1 << 16) * sizeof(et) // 2, 'prefer': z3.Or(bv(cp, 64) < 0, bv(cp, 64) >= (1 << 16))})
            oid = s.new_obj(st, tuple(zero(et) for _ in range(lim)), arr_type(et, lim))
            return Slice(oid, (), 0, ln, cp)
        if tosigned(ln, 64) < 0 or tosigned(cp, 64) < tosigned(ln, 64):
            s.violated(st, label)
        if cp > 1 << 22:
            s.violated(st, label, {'alloc': True})
        z = zero(et)
        oid = s.new_obj(st, (z,) * cp, arr_type(et, cp))
        return Slice(oid, (), 0, ln, cp)

    def do_slice(s, st, fr, ins):
        A = ins['args']
        R = fr.regs
        x = s.operand(fr, A[0], st)
        lo = s.operand(fr, A[1], st) if A[1] else 0
        xt = ty(ins['x'])
        lab = s.lbl(fr, ins)
        if xt['kind'] == 'ptr':  # *array
            if x is None:
                s.violated(st, lab)
            n = ty(xt['elem'])['len']
            hi = s.operand(fr, A[2], st) if A[2] else n
            mx = s.operand(fr, A[3], st) if A[3] else n
            s.vc(st, AndL([sge(lo, 0), sle(lo, hi), sle(hi, mx), sle(mx, n)]), lab)
            R[ins['reg']] = Slice(x.obj, x.path, simp_i(lo), simp_i(sub64(hi, lo)), simp_i(sub64(mx, lo)))
        elif xt['kind'] == 'slice':
            hi = s.operand(fr, A[2], st) if A[2] else x.len
            mx = s.operand(fr, A[3], st) if A[3] else x.cap
            s.vc(st, AndL([sge(lo, 0), sle(lo, hi), sle(hi, mx), sle(mx, x.cap)]), lab)
            if x.obj is None:
                R[ins['reg']] = NILSLICE
            else:
                R[ins['reg']] = Slice(x.obj, x.path, simp_i(add64(x.off, lo)), simp_i(sub64(hi, lo)), simp_i(sub64(mx, lo)))
        elif xt['kind'] == 'string':
            n = len(x.b)
            hi = s.operand(fr, A[2], st) if A[2] else n
            s.vc(st, AndL([sge(lo, 0), sle(lo, hi), sle(hi, n)]), lab)
            lo = s.concrete_int(st, lo, 'string slice bound')
            hi = s.concrete_int(st, hi, 'string slice bound')
            R[ins['reg']] = Str(x.b[lo:hi])
        else:
            raise Unsupported('slice of ' + xt['kind'])

    def lookup(s, st, fr, ins):
        A = ins['args']
        R = fr.regs
        x = s.operand(fr, A[0], st)
        xt = ty(ins['x']['xt'])
        if xt['kind'] == 'string':
            i = s.index_val(fr, A[1], st, ins['x']['it'])
            s.vc(st, And(sge(i, 0), slt(i, len(x.b))), s.lbl(fr, ins, 'index'))
            i = simp_i(i)
            if is_sym(i):
                r = x.b[-1]
                for j in range(len(x.b) - 2, -1, -1):
                    r = ite_bv(i == j, x.b[j], r, 8)
                R[ins['reg']] = r
            else:
                R[ins['reg']] = x.b[i]
            return
        k = s.operand(fr, A[1], st)
        et = xt['elem']
        ents = st.heap[x.obj][1] if x is not None else ()
        val = zero(et)
        ok = False
        # later entries shadow earlier ones
        try:
            for (kk, vv, g) in ents:
                hit = And(g, eqv(kk, k))
                hit = to_bool(hit)
                if hit is False:
                    continue
                val = merge_typed(hit, vv, val, et) if hit is not True else vv
                ok = Or(hit, ok) if hit is not True else True
        except Unmergeable:
            # values that cannot be merged (channels, pointers): decide the hit conditions one by one,
            # forking where the path condition leaves one open; later entries shadow earlier ones
            val, ok = zero(et), False
            for (kk, vv, g) in reversed(ents):
                hit = to_bool(And(g, eqv(kk, k)))
                if hit is False:
                    continue
                if hit is not True:
                    if not s.feasible(st.pc, hit):
                        continue
                    if s.feasible(st.pc, z3.Not(hit)):
                        raise ForkBool(hit, 'map lookup')
                val, ok = vv, True
                break
        R[ins['reg']] = (val, ok) if ins['x']['commaok'] else val

    def map_update(s, st, m, k, v):
        tag, ents = st.heap[m.obj]
        new = []
        for (kk, vv, g) in ents:
            e = to_bool(eqv(kk, k))
            if e is True:
                continue
            if e is False:
                new.append((kk, vv, g))
            else:
                new.append((kk, vv, And(g, Not(e))))
        new.append((k, v, True))
        st.heap[m.obj] = ('MAP', tuple(new))

    def map_delete(s, st, m, k):
        if m is None:
            return
        tag, ents = st.heap[m.obj]
        new = []
        for (kk, vv, g) in ents:
            e = to_bool(eqv(kk, k))
            if e is True:
                continue
            if e is False:
                new.append((kk, vv, g))
            else:
                new.append((kk, vv, And(g, Not(e))))
        st.heap[m.obj] = ('MAP', tuple(new))

    def chan_recv(s, st, fr, ins, ch):
        if ch is None:
            s.violated(st, s.lbl(fr, ins, 'recv-nil-chan'))
        _, cp, items, closed = st.heap[ch.obj]
        et = s.ctx.obj_types[ch.obj][1]
        if not items:
            if closed:
                v = zero(et)
                return (v, False) if ins['x']['commaok'] else v
            s.violated(st, s.lbl(fr, ins, 'would-block-recv'))
        st.heap[ch.obj] = ('CH', cp, items[1:], closed)
        return (items[0], True) if ins['x']['commaok'] else items[0]

    def type_assert(s, st, fr, ins):
        x = s.operand(fr, ins['args'][0], st)
        want = ins['x']['asserted']
        wt = ty(want)
        commaok = ins['x']['commaok']
        if wt['kind'] == 'iface':
            ok = x is not None and all(s.find_method(x.t, m) is not None for m in (wt.get('imethods') or []))
            res = x if ok else None
        else:
            ok = x is not None and s.same_type(x.t, want)
            res = x.v if ok else zero(want)
        if commaok:
            fr.regs[ins['reg']] = (res, ok)
        else:
            if not ok:
                s.violated(st, s.lbl(fr, ins))
            fr.regs[ins['reg']] = res

    def same_type(s, a, b):
        if a == b:
            return True
        ta, tb = E.TYPES.get(a), E.TYPES.get(b)
        if ta is None or tb is None:
            return False
        while ta['kind'] == 'alias':
            a = ta['under']
            ta = E.TYPES[a]
        while tb['kind'] == 'alias':
            b = tb['under']
            tb = E.TYPES[b]
        return a == b

    def find_method(s, dyn, name):
        if dyn.startswith('$'):
            return s.intr.synthetic_method(dyn, name)
        t = E.TYPES.get(dyn)
        if t is None:
            return None
        while t['kind'] == 'alias':
            t = E.TYPES[t['under']]
        if t['kind'] == 'named':
            return (t.get('methods') or {}).get(name)
        if t['kind'] == 'ptr':
            e = E.TYPES[t['elem']]
            while e['kind'] == 'alias':
                e = E.TYPES[e['under']]
            if e['kind'] == 'named':
                ms = e.get('methods') or {}
                return ms.get('*' + name) or ms.get(name)
        return None

    def convert(s, st, fr, ins):
        x = s.operand(fr, ins['args'][0], st)
        ft, tt = ty(ins['x']), ty(ins['type'])
        fk, tk = ft['kind'], tt['kind']
        if fk == 'int' and tk == 'int':
            return conv_int(x, ft['bits'], ft.get('signed', False), tt['bits'])
        if fk == 'string' and tk == 'slice':
            if ty(tt['elem']).get('bits') != 8:
                raise Unsupported('string -> []rune')
            return s.make_slice(st, tt['elem'], list(x.b))
        if fk == 'slice' and tk == 'string':
            if x.obj is None:
                return Str(())
            return Str(s.slice_values(st, x, 'string([]byte)'))
        if fk == 'int' and tk == 'string':
            if is_sym(x):
                a = z3.ULT(x, 0x80)
                s.vc(st, a, s.lbl(fr, ins, 'ascii-rune'), {'engine-limit': True})
                return Str((z3.Extract(7, 0, x),))
            v = tosigned(x, ft['bits']) if ft.get('signed') else x
            try:
                return mkstr(chr(v))
            except Exception:
                return mkstr('�')
        if fk == 'int' and tk == 'float':
            if is_sym(x):
                x = s.concretize(st, x, 'int->float', ft['bits'])
            return float(tosigned(x, ft['bits']) if ft.get('signed') else x)
        if fk == 'float' and tk == 'int':
            return mask(int(x), tt['bits'])
        if fk == 'float' and tk == 'float':
            return x
        if fk == tk and fk in ('ptr', 'slice', 'string', 'map', 'chan', 'func'):
            return x
        raise Unsupported(f"convert {fk}->{tk}")

    def concretize(s, st, v, what, bits=64):
        """the unique feasible value of v, or Unsupported"""
        return s.concrete_int(st, v, what)

    # ---------------------------------------------------------- arithmetic
    def binop(s, st, fr, ins):
        o = ins['x']
        A = ins['args']
        a = s.operand(fr, A[0], st)
        b = s.operand(fr, A[1], st)
        if o in ('==', '!='):
            r = eqv(a, b)
            return r if o == '==' else Not(r)
        t0 = s.opnd_type(fr, A[0]) or ins['type']
        xt = ty(t0)
        if xt['kind'] == 'nil':
            xt = ty(s.opnd_type(fr, A[1]))
        k = xt['kind']
        if k == 'string':
            if o == '+':
                return Str(a.b + b.b)
            if a.concrete() and b.concrete():
                x, y = bytes(a.b), bytes(b.b)
                return {'<': x < y, '<=': x <= y, '>': x > y, '>=': x >= y}[o]
            raise Unsupported('symbolic string ordering')
        if k == 'float':
            if o in ('<', '<=', '>', '>='):
                return {'<': a < b, '<=': a <= b, '>': a > b, '>=': a >= b}[o]
            return {'+': a + b, '-': a - b, '*': a * b, '/': a / b if b else float('inf')}[o]
        if k == 'bool':
            raise Unsupported('bool binop ' + o)
        bits, signed = xt['bits'], xt.get('signed', False)
        if o in ('<', '<=', '>', '>='):
            if not is_sym(a) and not is_sym(b):
                if signed:
                    a, b = tosigned(a, bits), tosigned(b, bits)
                return {'<': a < b, '<=': a <= b, '>': a > b, '>=': a >= b}[o]
            A_, B_ = bv(a, bits), bv(b, bits)
            if signed:
                return {'<': A_ < B_, '<=': A_ <= B_, '>': A_ > B_, '>=': A_ >= B_}[o]
            return {'<': z3.ULT(A_, B_), '<=': z3.ULE(A_, B_), '>': z3.UGT(A_, B_), '>=': z3.UGE(A_, B_)}[o]
        if o in ('<<', '>>'):
            yt = ty(s.opnd_type(fr, A[1]))
            ysigned = yt.get('signed', False)
            if ysigned:
                s.vc(st, sge(conv_int(b, yt['bits'], True, 64), 0), s.lbl(fr, ins, 'negative-shift'))
            if not is_sym(a) and not is_sym(b):
                if o == '<<':
                    return mask(a << b, bits) if b < bits else 0
                if signed:
                    return mask(tosigned(a, bits) >> min(b, bits - 1), bits)
                return a >> b if b < bits else 0
            A_ = bv(a, bits)
            B_ = bv(b, yt['bits'])
            if yt['bits'] < bits:
                B_ = z3.ZeroExt(bits - yt['bits'], B_)
            elif yt['bits'] > bits:
                big = z3.UGE(B_, bits)
                B_ = z3.If(big, z3.BitVecVal(bits, bits), z3.Extract(bits - 1, 0, B_))
            if o == '<<':
                return z3.If(z3.UGE(B_, bits), z3.BitVecVal(0, bits), A_ << B_)
            if signed:
                return z3.If(z3.UGE(B_, bits), A_ >> (bits - 1), A_ >> B_)
            return z3.If(z3.UGE(B_, bits), z3.BitVecVal(0, bits), z3.LShR(A_, B_))
        if o in ('/', '%'):
            if not is_sym(b):
                if b == 0:
                    s.violated(st, s.lbl(fr, ins, 'divide-by-zero'))
            else:
                s.vc(st, bv(b, bits) != 0, s.lbl(fr, ins, 'divide-by-zero'))
        if not is_sym(a) and not is_sym(b):
            if o == '+':
                return mask(a + b, bits)
            if o == '-':
                return mask(a - b, bits)
            if o == '*':
                return mask(a * b, bits)
            if o == '&':
                return a & b
            if o == '|':
                return a | b
            if o == '^':
                return a ^ b
            if o == '&^':
                return a & ~b & ((1 << bits) - 1)
            if o in ('/', '%'):
                if signed:
                    a, b = tosigned(a, bits), tosigned(b, bits)
                q = abs(a) // abs(b)
                if (a < 0) != (b < 0):
                    q = -q
                r = a - q * b
                return mask(q if o == '/' else r, bits)
            raise Unsupported('binop ' + o)
        A_, B_ = bv(a, bits), bv(b, bits)
        if o == '+':
            return A_ + B_
        if o == '-':
            return A_ - B_
        if o == '*':
            return A_ * B_
        if o == '&':
            return A_ & B_
        if o == '|':
            return A_ | B_
        if o == '^':
            return A_ ^ B_
        if o == '&^':
            return A_ & ~B_
        if o in ('/', '%') and not is_sym(b) and b > 0 and (b & (b - 1)) == 0 and (not signed or b < (1 << (bits - 1))):
            k = b.bit_length() - 1
            if not signed:
                return z3.LShR(A_, k) if o == '/' else (A_ & (b - 1))
            if not s.feasible(st.pc, A_ < 0):
                return z3.LShR(A_, k) if o == '/' else (A_ & (b - 1))
            bias = (A_ >> (bits - 1)) & z3.BitVecVal(b - 1, bits)
            q = (A_ + bias) >> k
            return q if o == '/' else A_ - (q << k)
        if o == '/':
            return (A_ / B_) if signed else z3.UDiv(A_, B_)
        if o == '%':
            return z3.SRem(A_, B_) if signed else z3.URem(A_, B_)
        raise Unsupported('binop ' + o)

    # ---------------------------------------------------------- call dispatch
    def callee_of(s, st, fr, ins):
        """(callee description, args) without calling"""
        A = ins['args']
        x = ins['x']
        if 'invoke' in x:
            recv = s.operand(fr, A[0], st)
            args = [s.operand(fr, a, st) for a in A[1:]]
            return (('invoke', x['invoke'], recv, s.lbl(fr, ins, 'nil-iface-call')), args)
        callee = s.operand(fr, A[0], st)
        args = [s.operand(fr, a, st) for a in A[1:]]
        return ((callee, ins, fr), args)

    def call_value(s, st, callee, args):
        if callee[0] == 'invoke':
            _, name, recv, lab = callee
            if recv is None:
                s.violated(st, lab)
            m = s.find_method(recv.t, name)
            if m is None:
                raise Unsupported(f'no method {name} on {recv.t}')
            if callable(m):
                return m(s, st, [recv.v] + args)
            return s.call(st, m, [recv.v] + args)
        fn, ins, fr = callee
        if isinstance(fn, Builtin):
            return s.builtin(st, fr, fn.name, args, ins)
        if isinstance(fn, FuncVal):
            return s.call(st, fn.name, args, fn.caps)
        if fn is None:
            s.violated(st, s.lbl(fr, ins, 'nil-func-call'))
        raise Unsupported('call of ' + repr(fn))

    def do_select(s, st, fr, ins):
        """select in the sequential channel model: every ready case is a possible outcome (fork); with a
        default clause and nothing ready the default is taken; a blocking select with nothing ready would
        block (violation)"""
        X = ins['x']
        A = ins['args']
        states = X['states']
        ready = []
        for i, sd in enumerate(states):
            ch = s.operand(fr, A[2 * i], st)
            if ch is None:
                continue
            _, cp, items, closed = st.heap[ch.obj]
            if sd['dir'] == 'recv':
                if items or closed:
                    ready.append(i)
            else:
                if closed:
                    s.violated(st, s.lbl(fr, ins, 'send-closed'))
                if len(items) < cp:
                    ready.append(i)
        nrecv = sum(1 for sd in states if sd['dir'] == 'recv')

        def result(stt, idx):
            vals = []
            ok = False
            for i, sd in enumerate(states):
                if sd['dir'] != 'recv':
                    continue
                if i == idx:
                    ch = s.operand(fr, A[2 * i], stt)
                    _, cp, items, closed = stt.heap[ch.obj]
                    if items:
                        vals.append(items[0])
                        ok = True
                        stt.heap[ch.obj] = ('CH', cp, items[1:], closed)
                    else:
                        vals.append(zero(sd['elem']))
                else:
                    vals.append(zero(sd['elem']))
            if idx >= 0 and states[idx]['dir'] == 'send':
                ch = s.operand(fr, A[2 * idx], stt)
                v = s.operand(fr, A[2 * idx + 1], stt)
                _, cp, items, closed = stt.heap[ch.obj]
                stt.heap[ch.obj] = ('CH', cp, items + (v,), closed)
            return (mask(idx, 64), ok) + tuple(vals)
        if not ready and X['blocking']:
            # nothing ready: time passes until the earliest deadline among the contexts selected on
            import intrinsics_lib
            objs = {}
            for i, sd in enumerate(states):
                ch = s.operand(fr, A[2 * i], st)
                if ch is not None and sd['dir'] == 'recv':
                    objs[ch.obj] = i
            fired = intrinsics_lib.ctx_expire_earliest(st, set(objs))
            if fired is not None:
                ready.append(objs[fired])
        if not ready:
            if X['blocking']:
                s.violated(st, s.lbl(fr, ins, 'would-block-select'))
            return [(st, result(st, -1))]
        out = []
        for k, idx in enumerate(ready):
            stt = st if k == len(ready) - 1 else st.fork()
            out.append((stt, result(stt, idx)))
        s.ctx.states += len(out) - 1
        return out

    def do_call(s, st, fr, ins):
        callee, args = s.callee_of(st, fr, ins)
        return s.call_value(st, callee, args)

    def builtin(s, st, fr, name, args, ins):
        if name == 'len' or name == 'cap':
            x = args[0]
            if x is None:
                return [(st, 0)]
            if isinstance(x, Slice):
                return [(st, x.len if name == 'len' else x.cap)]
            if isinstance(x, Str):
                return [(st, len(x.b))]
            if isinstance(x, Ptr):
                o = st.heap[x.obj]
                if isinstance(o, tuple) and o and o[0] == 'CH':
                    return [(st, len(o[2]) if name == 'len' else o[1])]
                if isinstance(o, tuple) and o and o[0] == 'MAP':
                    n = 0
                    for (_, _, g) in o[1]:
                        g = to_bool(g)
                        if g is True:
                            n = add64(n, 1)
                        elif g is not False:
                            n = add64(n, z3.If(g, z3.BitVecVal(1, 64), z3.BitVecVal(0, 64)))
                    return [(st, n)]
                # pointer to array
                t = s.ctx.obj_types[x.obj]
                _, t2 = get_path(st.heap[x.obj], x.path, t)
                return [(st, ty(t2)['len'])]
            raise Unsupported('len of ' + repr(x))
        if name == 'delete':
            s.map_delete(st, args[0], args[1])
            return [(st, None)]
        if name == 'copy':
            return [(st, s.do_copy(st, args[0], args[1]))]
        if name == 'append':
            return [(st, s.do_append(st, args[0], args[1], ins, fr))]
        if name == 'close':
            ch = args[0]
            _, cp, items, closed = st.heap[ch.obj]
            if closed:
                s.violated(st, s.lbl(fr, ins, 'close-closed'))
            st.heap[ch.obj] = ('CH', cp, items, True)
            return [(st, None)]
        if name == 'panic':
            s.violated(st, s.lbl(fr, ins, 'panic'))
        if name in ('print', 'println'):
            return [(st, None)]
        if name in ('min', 'max'):
            t = ty(ins['type'])
            a, b = args
            if t['kind'] != 'int':
                raise Unsupported(name)
            bits, sg = t['bits'], t.get('signed', False)
            if not is_sym(a) and not is_sym(b):
                aa, bb = (tosigned(a, bits), tosigned(b, bits)) if sg else (a, b)
                pick_a = aa <= bb if name == 'min' else aa >= bb
                return [(st, a if pick_a else b)]
            A_, B_ = bv(a, bits), bv(b, bits)
            le = (A_ <= B_) if sg else z3.ULE(A_, B_)
            return [(st, z3.If(le, A_, B_) if name == 'min' else z3.If(le, B_, A_))]
        if name == 'recover':
            return [(st, None)]
        if name == 'ssa:wrapnilchk':
            if args[0] is None:
                s.violated(st, s.lbl(fr, ins, 'nil-receiver-in-wrapper'))
            return [(st, args[0])]
        raise Unsupported('builtin ' + name)

    def do_copy(s, st, dst, src):
        if isinstance(src, Str):
            src = s.make_slice(st, 'uint8', list(src.b))
        n = smin(dst.len, src.len)
        if dst.obj is None or src.obj is None:
            return 0
        n = simp_i(n)
        darr, et = s.slice_elems(st, dst)
        sarr, _ = s.slice_elems(st, src)
        at_s = arr_type(et, len(sarr))
        maxn = min(len(darr), len(sarr))
        if not is_sym(n):
            maxn = n
        # read all source values first (overlapping copies behave like memmove)
        svals = []
        for j in range(maxn):
            si = simp_i(add64(src.off, j))
            if not is_sym(si) and si >= len(sarr):
                maxn = j
                break
            svals.append(get_path(sarr, (si,), at_s)[0])
        newd = list(darr)
        for j in range(maxn):
            cond = to_bool(slt(j, n))
            if cond is False:
                break
            di = simp_i(add64(dst.off, j))
            if is_sym(di):
                for k in range(len(newd)):
                    cnd = to_bool(And(cond, di == k))
                    if cnd is not False:
                        newd[k] = merge_typed(cnd, svals[j], newd[k], et) if cnd is not True else svals[j]
            else:
                if di < len(newd):
                    newd[di] = merge_typed(cond, svals[j], newd[di], et) if cond is not True else svals[j]
        s.store(st, Ptr(dst.obj, dst.path), tuple(newd))
        return n

    def append_uniform(s, st, dst, src, n, et, ins, fr):
        """append of a symbolic number of EQUAL concrete elements (the append(x, make([]T, n)...) idiom)"""
        sarr, _ = s.slice_elems(st, src)
        v0 = sarr[0] if len(sarr) else zero(et)
        if any(is_sym(x) or x != v0 for x in sarr):
            raise Unsupported('append of a symbolic number of non-uniform elements')
        lim = st.alloc_limit if st.alloc_limit is not None else s.ctx.alloc_limit
        dl = simp_i(dst.len) if dst.obj is not None else 0
        lab = s.lbl(fr, ins, 'append-limit') if fr is not None else 'append-limit'
        s.vc(st, And(sge(n, 0), sle(add64(dl, n), lim)), lab, {'alloc': True, 'alloc_bytes': 0})
        old = []
        if dst.obj is not None:
            darr, _ = s.slice_elems(st, dst)
            off = s.concrete_int(st, dst.off, 'append offset')
            old = list(darr[off:])
        vals = []
        hi = add64(dl, n)
        for k in range(lim):
            cur = old[k] if k < len(old) else zero(et)
            inr = to_bool(And(sle(dl, k), slt(k, hi)))
            if inr is True:
                vals.append(v0)
            elif inr is False:
                vals.append(cur)
            else:
                vals.append(merge_typed(inr, v0, cur, et))
        oid = s.new_obj(st, tuple(vals), arr_type(et, lim))
        return Slice(oid, (), 0, simp_i(hi), lim)

    def do_append(s, st, dst, src, ins, fr):
        et = ty(ins['type'])['elem']
        if isinstance(src, Str):
            src = s.make_slice(st, 'uint8', list(src.b))
        if src is None or src.obj is None:
            return dst
        n = simp_i(src.len)
        if is_sym(n):
            try:
                n = s.concrete_int(st, n, 'append count')
            except Unsupported:
                return s.append_uniform(st, dst, src, n, et, ins, fr)
        if n == 0:
            return dst
        svals = [s.slice_get(st, src, j) for j in range(n)]
        dl = simp_i(dst.len)
        if dst.obj is None or (not is_sym(dl) and not is_sym(dst.cap) and tosigned(add64(dl, n), 64) > tosigned(dst.cap, 64)):
            # grow: new backing array (concrete length) or limit-sized (symbolic length)
            if is_sym(dl):
                raise Unsupported('append growth with symbolic length')
            old = [s.slice_get(st, dst, j) for j in range(dl)] if dst.obj is not None else []
            newcap = max(2 * (dl + n), 4)
            vals = old + svals + [zero(et)] * (newcap - dl - n)
            oid = s.new_obj(st, tuple(vals), arr_type(et, newcap))
            return Slice(oid, (), 0, dl + n, newcap)
        fits = to_bool(sle(add64(dl, n), dst.cap))
        if fits is not True:
            if s.feasible(st.pc, Not(fits)):
                # symbolic length: fork is avoided by copying into a fresh backing of the allocation limit
                lim = st.alloc_limit if st.alloc_limit is not None else s.ctx.alloc_limit
                s.vc(st, sle(add64(dl, n), lim), s.lbl(fr, ins, 'append-limit'), {'alloc': True})
                darr, _ = s.slice_elems(st, dst)
                vals = []
                at_d = arr_type(et, len(darr))
                for j in range(lim):
                    if j < len(darr) or True:
                        idx = simp_i(add64(dst.off, j))
                        if not is_sym(idx) and idx >= len(darr):
                            vals.append(zero(et))
                        elif is_sym(idx):
                            raise Unsupported('append growth with symbolic offset')
                        else:
                            vals.append(darr[idx])
                oid = s.new_obj(st, tuple(vals), arr_type(et, lim))
                dst = Slice(oid, (), 0, dl, lim)
        for j in range(n):
            s.slice_set(st, dst, add64(dl, j), svals[j])
        return Slice(dst.obj, dst.path, dst.off, simp_i(add64(dl, n)), dst.cap)
