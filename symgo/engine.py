# symgo: bounded symbolic executor for go/ssa (JSON from tools/ssa2json) deciding
# verification conditions with z3.  See /verif/DESIGN.md sections 3 and Appendix A.
import json, sys, time, itertools, os
import z3

sys.setrecursionlimit(400000)

D = None
TYPES = None
FUNCS = None


def load_dump(path):
    global D, TYPES, FUNCS
    D = json.load(open(path))
    TYPES = D['types']
    FUNCS = D['funcs']
    for t in TYPES.values():
        if t.get('kind') == 'array':
            t.setdefault('len', 0)
    for f in FUNCS.values():
        rt = {}
        for p, t in zip(f.get('params') or [], f.get('ptypes') or []):
            rt[p] = t
        for p, t in zip(f.get('freevars') or [], f.get('fvtypes') or []):
            rt['$fv_' + p] = t
        counts = {}
        for b in f.get('blocks') or []:
            for i in b['instrs']:
                if i.get('reg'):
                    rt[i['reg']] = i['type']
                k = KIND_OF_OP.get(i['op'])
                if i['op'] == 'UnOp' and i['x']['op'] == '*':
                    k = 'deref'
                if i['op'] == 'BinOp' and i['x'] in ('/', '%', '<<', '>>'):
                    k = 'arith'
                if i['op'] == 'Call':
                    k = 'call'
                if k:
                    counts[k] = counts.get(k, 0) + 1
                    i['_ord'] = counts[k]
                    i['_kind'] = k
        f['_regtypes'] = rt
    for t in ('int', 'uint8', 'bool', 'string', 'uint64', 'int64', 'uint32', 'int32', 'error'):
        if t not in TYPES:
            if t == 'bool':
                TYPES[t] = {'kind': 'bool'}
            elif t == 'string':
                TYPES[t] = {'kind': 'string'}
            elif t == 'error':
                TYPES[t] = {'kind': 'iface', 'imethods': ['Error']}
            else:
                bits = {'int': 64, 'uint8': 8, 'uint64': 64, 'int64': 64, 'uint32': 32, 'int32': 32}[t]
                TYPES[t] = {'kind': 'int', 'bits': bits, 'signed': not t.startswith('u')}


KIND_OF_OP = {'IndexAddr': 'index', 'Index': 'index', 'Slice': 'slice', 'MakeSlice': 'makeslice', 'Panic': 'panic',
              'TypeAssert': 'typeassert', 'Send': 'send', 'MapUpdate': 'mapupdate', 'FieldAddr': 'fieldaddr',
              'SliceToArrayPointer': 'slice2arr', 'Convert': 'convert', 'Lookup': 'lookup', 'Store': 'store', 'Go': 'go', 'Select': 'select'}


def ty(t):
    x = TYPES[t]
    while x['kind'] in ('named', 'alias'):
        x = TYPES[x['under']]
    return x


def arr_type(et, n):
    k = f'[{n}]{et}'
    if k not in TYPES:
        TYPES[k] = {'kind': 'array', 'elem': et, 'len': n}
    return k


# ------------------------------------------------------------------ values

class Ptr:
    __slots__ = ('obj', 'path')

    def __init__(s, obj, path=()):
        s.obj = obj
        s.path = path

    def __eq__(s, o):
        return isinstance(o, Ptr) and s.obj == o.obj and len(s.path) == len(o.path) and all(
            (a is b) or (not is_sym(a) and not is_sym(b) and a == b) for a, b in zip(s.path, o.path))

    def __hash__(s):
        return hash((s.obj, len(s.path)))

    def __repr__(s):
        return f'Ptr({s.obj},{s.path})'


class Slice:
    __slots__ = ('obj', 'path', 'off', 'len', 'cap')

    def __init__(s, obj, path, off, ln, cap):
        s.obj, s.path, s.off, s.len, s.cap = obj, path, off, ln, cap

    def __repr__(s):
        return f'Slice({s.obj},{s.path},{s.off},{s.len},{s.cap})'


NILSLICE = Slice(None, (), 0, 0, 0)


class Iface:
    __slots__ = ('t', 'v')

    def __init__(s, t, v):
        s.t, s.v = t, v

    def __repr__(s):
        return f'Iface({s.t},{s.v})'


class FuncVal:
    __slots__ = ('name', 'caps')

    def __init__(s, name, caps=()):
        s.name, s.caps = name, caps

    def __eq__(s, o):
        return isinstance(o, FuncVal) and s.name == o.name and s.caps == o.caps

    def __hash__(s):
        return hash(s.name)


class Str:
    """Go string: concrete length, bytes are ints or 8-bit terms."""
    __slots__ = ('b',)

    def __init__(s, b):
        s.b = tuple(b)

    def concrete(s):
        return all(not is_sym(x) for x in s.b)

    def py(s):
        return bytes(s.b).decode('utf-8', 'replace')

    def __eq__(s, o):
        return isinstance(o, Str) and len(s.b) == len(o.b) and all((a is b) or (not is_sym(a) and not is_sym(b) and a == b) for a, b in zip(s.b, o.b))

    def __hash__(s):
        return hash(len(s.b))

    def __repr__(s):
        return 'Str(' + (repr(s.py()) if s.concrete() else f'<{len(s.b)} sym>') + ')'


def mkstr(x):
    return Str(x.encode('utf-8'))


class Builtin:
    __slots__ = ('name',)

    def __init__(s, n):
        s.name = n


class Opaque:
    """value of an intrinsic-modelled library type (big.Int, hash state, ...)"""
    __slots__ = ('kind', 'data')

    def __init__(s, kind, data):
        s.kind, s.data = kind, data

    def __repr__(s):
        return f'Opaque({s.kind})'


def is_sym(v):
    return isinstance(v, z3.ExprRef)


def bv(v, bits):
    return v if is_sym(v) else z3.BitVecVal(v, bits)


def bl(v):
    return v if is_sym(v) else z3.BoolVal(bool(v))


def mask(v, bits):
    return v & ((1 << bits) - 1)


def tosigned(v, bits):
    return v - (1 << bits) if v >> (bits - 1) else v


def zero(t):
    x = ty(t)
    k = x['kind']
    if k == 'int':
        return 0
    if k == 'bool':
        return False
    if k == 'string':
        return Str(())
    if k in ('ptr', 'iface', 'map', 'chan', 'func', 'nil', 'unsafeptr'):
        return None
    if k == 'slice':
        return NILSLICE
    if k == 'array':
        z = zero(x['elem'])
        return tuple(z for _ in range(x['len']))
    if k in ('struct', 'tuple'):
        return tuple(zero(f['type']) for f in (x.get('fields') or []))
    if k == 'float':
        return 0.0
    if k == 'basic':   # "invalid type": unused component of a range tuple
        return None
    raise Unsupported('zero ' + k)


class Unsupported(Exception):
    pass


class Inconclusive(Exception):
    pass


class PathEnd(Exception):
    """current path cannot continue (infeasible or terminated by a recorded violation)"""
    pass


def simp(x):
    return z3.simplify(x) if is_sym(x) else x


def to_bool(c):
    if is_sym(c):
        c = z3.simplify(c)
        if z3.is_true(c):
            return True
        if z3.is_false(c):
            return False
    return c


def Not(c):
    return (not c) if not is_sym(c) else z3.Not(c)


def And(a, b):
    if not is_sym(a):
        return b if a else False
    if not is_sym(b):
        return a if b else False
    return z3.And(a, b)


def Or(a, b):
    if not is_sym(a):
        return True if a else b
    if not is_sym(b):
        return True if b else a
    return z3.Or(a, b)


def AndL(xs):
    r = True
    for x in xs:
        r = And(r, x)
    return r


def ite_bv(c, a, b, bits):
    if not is_sym(c):
        return a if c else b
    if a is b:
        return a
    if not is_sym(a) and not is_sym(b) and a == b:
        return a
    return z3.If(c, bv(a, bits), bv(b, bits))


def ite_bool(c, a, b):
    if not is_sym(c):
        return a if c else b
    if a is b:
        return a
    if not is_sym(a) and not is_sym(b) and a == b:
        return a
    return z3.If(c, bl(a), bl(b))


class Unmergeable(Exception):
    pass


HEAP_STRICT = [False]
SLICE_STRICT = [True]
BIGW = 320


def same(a, b):
    if a is b:
        return True
    if is_sym(a) or is_sym(b):
        return is_sym(a) and is_sym(b) and a.eq(b)
    return False


def merge_typed(c, a, b, t):
    """value: if c then a else b, at Go type t"""
    if a is b:
        return a
    if type(a).__name__ == 'RV' or type(b).__name__ == 'RV':
        if type(a) is type(b) and a.t == b.t and a.ptr == b.ptr and a.val is b.val and a.canset == b.canset:
            return a
        raise Unmergeable()
    if isinstance(a, Opaque) or isinstance(b, Opaque):
        raise Unmergeable()
    x = ty(t)
    k = x['kind']
    if k == 'int':
        if not is_sym(a) and not is_sym(b):
            if a == b:
                return a
            if HEAP_STRICT[0] and x.get('name') == 'int':
                # two different CONCRETE lengths/cursors in memory: keep the paths apart rather than
                # turning every later position into a symbolic one (a missed merge costs time, not soundness)
                raise Unmergeable()
        if same(a, b):
            return a
        return z3.If(c, bv(a, x['bits']), bv(b, x['bits']))
    if k == 'bool':
        if not is_sym(a) and not is_sym(b) and a == b:
            return a
        if same(a, b):
            return a
        return z3.If(c, bl(a), bl(b))
    if k in ('struct', 'tuple'):
        return tuple(merge_typed(c, p, q, f['type']) for p, q, f in zip(a, b, (x.get('fields') or [])))
    if k == 'array':
        return tuple(merge_typed(c, p, q, x['elem']) for p, q in zip(a, b))
    if k == 'slice':
        if type(a).__name__ == 'BigMag' or type(b).__name__ == 'BigMag':
            av = a.v if type(a).__name__ == 'BigMag' else 0
            bw = b.v if type(b).__name__ == 'BigMag' else 0
            if not is_sym(av) and not is_sym(bw) and av == bw:
                return a
            cls = type(a) if type(a).__name__ == 'BigMag' else type(b)
            return cls(z3.If(c, bv(av, BIGW), bv(bw, BIGW)))
        if a.obj != b.obj or not Ptr(a.obj, a.path) == Ptr(b.obj, b.path):
            if a.obj is None and is_zero_len(b):
                pass
            raise Unmergeable()
        # slice headers with different CONCRETE lengths are kept apart (same reason as HEAP_STRICT)
        saved = HEAP_STRICT[0]
        HEAP_STRICT[0] = SLICE_STRICT[0] or saved
        try:
            return Slice(a.obj, a.path, merge_typed(c, a.off, b.off, 'int'), merge_typed(c, a.len, b.len, 'int'), merge_typed(c, a.cap, b.cap, 'int'))
        finally:
            HEAP_STRICT[0] = saved
    if k == 'string':
        if a == b:
            return a
        if len(a.b) == len(b.b):
            return Str(merge_typed(c, p, q, 'uint8') for p, q in zip(a.b, b.b))
        raise Unmergeable()
    if k in ('ptr', 'map', 'chan', 'func', 'unsafeptr'):
        if a == b:
            return a
        raise Unmergeable()
    if k == 'iface':
        if a is None and b is None:
            return None
        if isinstance(a, Iface) and isinstance(b, Iface) and a.t == b.t:
            if a.v is b.v:
                return a
            if a.t in TYPES:
                return Iface(a.t, merge_typed(c, a.v, b.v, a.t))
            if a.v == b.v:
                return a
        raise Unmergeable()
    if k == 'float':
        if a == b:
            return a
        raise Unmergeable()
    raise Unmergeable()


def is_zero_len(s):
    return not is_sym(s.len) and s.len == 0


class State:
    __slots__ = ('pc', 'heap', 'nd', 'alloc_limit', 'observes', 'ndvals')

    def __init__(s):
        s.pc = []
        s.heap = {}
        s.nd = {}          # nondet name -> count (per path)
        s.ndvals = {}      # 'name#k' -> term (shared dict across forks; names are unique per path position)
        s.alloc_limit = None
        s.observes = ()

    def fork(s):
        n = State()
        n.pc = list(s.pc)
        n.heap = dict(s.heap)
        n.nd = dict(s.nd)
        n.ndvals = s.ndvals
        n.alloc_limit = s.alloc_limit
        n.observes = s.observes
        return n


class Frame:
    __slots__ = ('fn', 'regs', 'iters', 'defers')

    def __init__(s, fn, regs):
        s.fn = fn
        s.regs = regs
        s.iters = {}
        s.defers = []


class Outcome:
    __slots__ = ('kind', 'state', 'vals', 'what')

    def __init__(s, kind, state, vals=None, what=None):
        s.kind, s.state, s.vals, s.what = kind, state, vals, what


# ------------------------------------------------------------------ arithmetic helpers

def add64(a, b):
    if not is_sym(a) and not is_sym(b):
        return mask(a + b, 64)
    return bv(a, 64) + bv(b, 64)


def sub64(a, b):
    if not is_sym(a) and not is_sym(b):
        return mask(a - b, 64)
    return bv(a, 64) - bv(b, 64)


def slt(a, b):
    if not is_sym(a) and not is_sym(b):
        return tosigned(a, 64) < tosigned(b, 64)
    return bv(a, 64) < bv(b, 64)


def sle(a, b):
    if not is_sym(a) and not is_sym(b):
        return tosigned(a, 64) <= tosigned(b, 64)
    return bv(a, 64) <= bv(b, 64)


def sge(a, b):
    return sle(b, a)


def smin(a, b):
    if not is_sym(a) and not is_sym(b):
        return a if tosigned(a, 64) <= tosigned(b, 64) else b
    return z3.If(bv(a, 64) <= bv(b, 64), bv(a, 64), bv(b, 64))


def simp_i(x):
    return simp(x) if is_sym(x) else x


def conv_int(x, fb, fsigned, tb):
    if not is_sym(x):
        if tb >= fb and fsigned:
            return mask(tosigned(x, fb), tb)
        return mask(x, tb)
    if tb == fb:
        return x
    if tb < fb:
        return z3.Extract(tb - 1, 0, x)
    return z3.SignExt(tb - fb, x) if fsigned else z3.ZeroExt(tb - fb, x)


def eqv(a, b):
    """Go == as a (possibly symbolic) bool"""
    if a is None or b is None:
        if a is None and b is None:
            return True
        o = a if a is not None else b
        if isinstance(o, (Iface, Ptr, FuncVal, Opaque)):
            return False
        if isinstance(o, Slice):
            return o.obj is None
        raise Unsupported('eq nil with ' + repr(o))
    if isinstance(a, bool) and isinstance(b, bool):
        return a == b
    if isinstance(a, tuple):
        return AndL(eqv(x, y) for x, y in zip(a, b))
    if isinstance(a, Str):
        if len(a.b) != len(b.b):
            return False
        return AndL(eqv8(x, y) for x, y in zip(a.b, b.b))
    if isinstance(a, Ptr):
        if not isinstance(b, Ptr) or a.obj != b.obj or len(a.path) != len(b.path):
            return False
        return AndL(eqv64(x, y) for x, y in zip(a.path, b.path))
    if isinstance(a, Iface):
        if not isinstance(b, Iface) or a.t != b.t:
            return False
        return eqv(a.v, b.v)
    if is_sym(a) or is_sym(b):
        if (is_sym(a) and z3.is_bool(a)) or (is_sym(b) and z3.is_bool(b)):
            return bl(a) == bl(b)
        bits = a.size() if is_sym(a) else b.size()
        return bv(a, bits) == bv(b, bits)
    if isinstance(a, Slice) or isinstance(b, Slice):
        if isinstance(a, Slice) and a.obj is None:
            return isinstance(b, Slice) and b.obj is None
        if isinstance(b, Slice) and b.obj is None:
            return False
        raise Unsupported('slice ==')
    return a == b


def eqv8(a, b):
    if not is_sym(a) and not is_sym(b):
        return a == b
    return bv(a, 8) == bv(b, 8)


def eqv64(a, b):
    if not is_sym(a) and not is_sym(b):
        return a == b
    return bv(a, 64) == bv(b, 64)


# ------------------------------------------------------------------ memory

def merge_idx(c, a, b, t):
    return merge_typed(c, a, b, t)


def get_path(v, path, t):
    """project value v (Go type t) along path; returns (value, type)"""
    for p in path:
        x = ty(t)
        k = x['kind']
        if k in ('struct', 'tuple'):
            v = v[p]
            t = x['fields'][p]['type']
        elif k == 'array':
            et = x['elem']
            if is_sym(p):
                elems = v
                if len(elems) == 0:
                    raise PathEnd()
                r = elems[-1]
                for i in range(len(elems) - 2, -1, -1):
                    r = merge_typed(p == i, elems[i], r, et)
                v = r
            else:
                v = v[p]
            t = et
        else:
            raise Unsupported('path through ' + k)
    return v, t


def set_path(v, path, new, t):
    if not path:
        return new
    p = path[0]
    x = ty(t)
    k = x['kind']
    if k in ('struct', 'tuple'):
        lst = list(v)
        lst[p] = set_path(v[p], path[1:], new, x['fields'][p]['type'])
        return tuple(lst)
    if k == 'array':
        et = x['elem']
        if is_sym(p):
            return tuple(merge_typed(p == i, set_path(e, path[1:], new, et), e, et) for i, e in enumerate(v))
        lst = list(v)
        lst[p] = set_path(v[p], path[1:], new, et)
        return tuple(lst)
    raise Unsupported('set path through ' + k)
