# Model of math/big.Int: (neg bool, magnitude as a W-bit vector) with no-overflow side VCs (DESIGN 3.1).
import z3
import engine as E
from engine import *
from intrinsics import I, ret, py_str

W = 320


class BigMag:
    """magnitude of a big.Int stored in the `abs` field: python int or BitVec(W)"""
    __slots__ = ('v',)

    def __init__(s, v):
        s.v = v

    def __repr__(s):
        return f'BigMag({s.v if not is_sym(s.v) else "sym"})'


E.BigMag = BigMag


def mag_of(x):
    if isinstance(x, BigMag):
        return x.v
    if isinstance(x, Slice):
        if x.obj is None:
            return 0
        raise Unsupported('big.Int with a real word slice')
    raise Unsupported('big.Int magnitude ' + repr(x))


def get(it, st, p):
    """(neg, mag) of *big.Int p"""
    if p is None:
        it.violated(st, 'big:nil-receiver')
    t = it.load(st, p, 'big:deref')
    return t[0], mag_of(t[1])


def put(it, st, p, neg, mag):
    if not is_sym(mag):
        if mag == 0:
            neg = False
        mag = mag & ((1 << W) - 1)
    it.store(st, p, (neg, BigMag(mag)), 'big:store')
    return p


def bvw(v):
    return v if is_sym(v) else z3.BitVecVal(v, W)


def new_int(it, st, neg=False, mag=0):
    oid = it.new_obj(st, (neg, BigMag(mag)), 'math/big.Int')
    return Ptr(oid)


def signed_val(neg, mag):
    """value as a (W+1)-bit two's complement term, for additions"""
    m = z3.ZeroExt(1, bvw(mag))
    return z3.If(bl(neg), -m, m) if is_sym(neg) else (-m if neg else m)


def from_signed(it, st, sv, what):
    """(neg, mag) from a W+1-bit two's complement term"""
    neg = z3.Extract(W, W, sv) == 1
    mag = z3.If(neg, -sv, sv)
    return z3.simplify(neg), z3.simplify(z3.Extract(W - 1, 0, mag))


def conc(x):
    return not is_sym(x)


@I.reg('math/big.NewInt')
def b_newint(it, st, args, fname):
    x = args[0]
    if conc(x):
        v = tosigned(x, 64)
        return ret(st, new_int(it, st, v < 0, abs(v)))
    neg = x < 0
    mag = z3.ZeroExt(W - 64, z3.If(neg, -x, x))
    return ret(st, new_int(it, st, neg, mag))


def big_method(it, st, args, fname):
    m = fname.rsplit('.', 1)[1]
    z = args[0]
    if m == 'SetInt64':
        x = args[1]
        if conc(x):
            v = tosigned(x, 64)
            return ret(st, put(it, st, z, v < 0, abs(v)))
        neg = x < 0
        return ret(st, put(it, st, z, neg, z3.ZeroExt(W - 64, z3.If(neg, -x, x))))
    if m == 'SetUint64':
        x = args[1]
        return ret(st, put(it, st, z, False, x if conc(x) else z3.ZeroExt(W - 64, x)))
    if m == 'Set':
        n, mg = get(it, st, args[1])
        return ret(st, put(it, st, z, n, mg))
    if m == 'SetBytes':
        vals = it.slice_values(st, args[1], 'big.SetBytes input') if args[1].obj is not None else []
        if len(vals) * 8 > W:
            raise Unsupported('big.SetBytes longer than the model width')
        if all(conc(v) for v in vals):
            return ret(st, put(it, st, z, False, int.from_bytes(bytes(vals), 'big')))
        t = z3.Concat(*[bv(v, 8) for v in vals]) if len(vals) > 1 else bv(vals[0], 8)
        if len(vals) * 8 < W:
            t = z3.ZeroExt(W - len(vals) * 8, t)
        return ret(st, put(it, st, z, False, z3.simplify(t)))
    if m == 'Bytes':
        neg, mag = get(it, st, z)
        if conc(mag):
            n = (mag.bit_length() + 7) // 8
            return ret(st, it.make_slice(st, 'uint8', list(mag.to_bytes(n, 'big'))))
        out = []
        for n in range(0, W // 8 + 1):
            lo = z3.BoolVal(True) if n == 0 else z3.UGE(mag, 1 << (8 * (n - 1)))
            hi = z3.ULT(mag, 1 << (8 * n)) if n < W // 8 else z3.BoolVal(True)
            c = z3.simplify(z3.And(lo, hi))
            if z3.is_false(c) or not it.feasible(st.pc, c):
                continue
            s2 = st.fork()
            s2.pc.append(c)
            bs = [z3.simplify(z3.Extract(8 * (n - 1 - i) + 7, 8 * (n - 1 - i), mag)) for i in range(n)]
            out.append((s2, it.make_slice(s2, 'uint8', bs)))
        it.ctx.states += max(0, len(out) - 1)
        return out
    if m == 'FillBytes':
        neg, mag = get(it, st, z)
        buf = args[1]
        n = it.concrete_int(st, buf.len, 'FillBytes length')
        if conc(mag):
            if mag >= 1 << (8 * n):
                it.violated(st, 'big:FillBytes-too-small')
            for i, b in enumerate(mag.to_bytes(n, 'big')):
                it.slice_set(st, buf, i, b)
        else:
            if 8 * n < W:
                it.vc(st, z3.ULT(mag, 1 << (8 * n)), 'big:FillBytes-too-small')
            for i in range(n):
                sh = 8 * (n - 1 - i)
                it.slice_set(st, buf, i, z3.simplify(z3.Extract(sh + 7, sh, mag)) if sh + 7 < W else 0)
        return ret(st, buf)
    if m == 'Bit':
        neg, mag = get(it, st, z)
        i = args[1]
        if conc(neg) and neg:
            raise Unsupported('big.Bit of a negative number')
        if is_sym(neg):
            it.vc(st, z3.Not(neg), 'big:Bit-of-negative(model limit)', {'engine-limit': True})
        if conc(mag) and conc(i):
            return ret(st, (mag >> tosigned(i, 64)) & 1 if tosigned(i, 64) < W else 0)
        it.vc(st, sge(i, 0), 'big:negative-bit-index')
        I_ = bv(i, 64)
        sh = z3.ZeroExt(W - 64, I_)
        bit = z3.Extract(0, 0, z3.LShR(bvw(mag), sh))
        return ret(st, z3.If(z3.ULT(I_, W), z3.ZeroExt(63, bit), z3.BitVecVal(0, 64)))
    if m == 'BitLen':
        neg, mag = get(it, st, z)
        if conc(mag):
            return ret(st, mag.bit_length())
        r = z3.BitVecVal(0, 64)
        for i in range(W):
            r = z3.If(z3.Extract(i, i, mag) == 1, z3.BitVecVal(i + 1, 64), r)
        return ret(st, r)
    if m == 'Sign':
        neg, mag = get(it, st, z)
        if conc(mag) and conc(neg):
            return ret(st, 0 if mag == 0 else (mask(-1, 64) if neg else 1))
        return ret(st, z3.If(bvw(mag) == 0, z3.BitVecVal(0, 64), z3.If(bl(neg), z3.BitVecVal(mask(-1, 64), 64), z3.BitVecVal(1, 64))))
    if m in ('Int64', 'Uint64'):
        neg, mag = get(it, st, z)
        if conc(mag) and conc(neg):
            v = mag & ((1 << 64) - 1)
            return ret(st, mask(-v, 64) if neg else v)
        lo = z3.Extract(63, 0, bvw(mag))
        return ret(st, z3.simplify(z3.If(bl(neg), -lo, lo)))
    if m == 'IsUint64':
        neg, mag = get(it, st, z)
        if conc(mag) and conc(neg):
            return ret(st, (not neg) and mag < (1 << 64))
        return ret(st, And(Not(neg), z3.ULT(bvw(mag), 1 << 64)))
    if m == 'IsInt64':
        neg, mag = get(it, st, z)
        if conc(mag) and conc(neg):
            return ret(st, mag < (1 << 63) or (neg and mag == (1 << 63)))
        M = bvw(mag)
        return ret(st, Or(z3.ULT(M, 1 << 63), And(neg, M == (1 << 63))))
    if m in ('Cmp', 'CmpAbs'):
        n1, m1 = get(it, st, z)
        n2, m2 = get(it, st, args[1])
        if m == 'CmpAbs':
            n1 = n2 = False
        if all(conc(x) for x in (n1, m1, n2, m2)):
            a = -m1 if n1 else m1
            b = -m2 if n2 else m2
            return ret(st, mask((a > b) - (a < b), 64))
        a, b = signed_val(n1, m1), signed_val(n2, m2)
        return ret(st, z3.If(a == b, z3.BitVecVal(0, 64), z3.If(a < b, z3.BitVecVal(mask(-1, 64), 64), z3.BitVecVal(1, 64))))
    if m in ('Add', 'Sub'):
        n1, m1 = get(it, st, args[1])
        n2, m2 = get(it, st, args[2])
        if all(conc(x) for x in (n1, m1, n2, m2)):
            a = -m1 if n1 else m1
            b = -m2 if n2 else m2
            r = a + b if m == 'Add' else a - b
            return ret(st, put(it, st, z, r < 0, abs(r)))
        # no overflow of the model width
        it.vc(st, And(z3.ULT(bvw(m1), 1 << (W - 2)), z3.ULT(bvw(m2), 1 << (W - 2))), 'big:model-width-overflow', {'engine-limit': True})
        a, b = signed_val(n1, m1), signed_val(n2, m2)
        neg, mag = from_signed(it, st, a + b if m == 'Add' else a - b, m)
        return ret(st, put(it, st, z, neg, mag))
    if m == 'Neg':
        n1, m1 = get(it, st, args[1])
        return ret(st, put(it, st, z, And(Not(n1), Not(eqw(m1, 0))), m1))
    if m == 'Abs':
        n1, m1 = get(it, st, args[1])
        return ret(st, put(it, st, z, False, m1))
    if m == 'Exp':
        n1, m1 = get(it, st, args[1])
        n2, m2 = get(it, st, args[2])
        if args[3] is not None:
            raise Unsupported('big.Exp with modulus')
        if not all(conc(x) for x in (n1, m1, n2, m2)):
            if conc(m1) and conc(n1) and m1 == 2 and not n1:
                it.vc(st, z3.ULT(bvw(m2), W - 1), 'big:model-width-overflow', {'engine-limit': True})
                return ret(st, put(it, st, z, False, z3.BitVecVal(1, W) << bvw(m2)))
            raise Unsupported('big.Exp with symbolic base')
        r = (-m1 if n1 else m1) ** m2
        if abs(r) >= 1 << (W - 1):
            raise Unsupported('big.Exp result exceeds the model width')
        return ret(st, put(it, st, z, r < 0, abs(r)))
    if m in ('Lsh', 'Rsh'):
        n1, m1 = get(it, st, args[1])
        k = args[2]
        if conc(m1) and conc(k):
            r = m1 << k if m == 'Lsh' else m1 >> k
            if r >= 1 << (W - 1):
                raise Unsupported('big.Lsh result exceeds the model width')
            return ret(st, put(it, st, z, n1, r))
        K = z3.ZeroExt(W - 64, bv(k, 64))
        M = bvw(m1)
        if m == 'Lsh':
            it.vc(st, z3.LShR(M << K, K) == M, 'big:model-width-overflow', {'engine-limit': True})
            return ret(st, put(it, st, z, n1, M << K))
        if not (conc(n1) and not n1):
            raise Unsupported('big.Rsh of a possibly negative number')
        return ret(st, put(it, st, z, False, z3.LShR(M, K)))
    if m in ('And', 'Or', 'Xor'):
        n1, m1 = get(it, st, args[1])
        n2, m2 = get(it, st, args[2])
        if not (conc(n1) and conc(n2) and not n1 and not n2):
            raise Unsupported('big bitwise op on possibly negative numbers')
        if conc(m1) and conc(m2):
            r = {'And': m1 & m2, 'Or': m1 | m2, 'Xor': m1 ^ m2}[m]
        else:
            A, B = bvw(m1), bvw(m2)
            r = {'And': A & B, 'Or': A | B, 'Xor': A ^ B}[m]
        return ret(st, put(it, st, z, False, r))
    if m == 'Mul':
        n1, m1 = get(it, st, args[1])
        n2, m2 = get(it, st, args[2])
        if all(conc(x) for x in (n1, m1, n2, m2)):
            r = (-m1 if n1 else m1) * (-m2 if n2 else m2)
            return ret(st, put(it, st, z, r < 0, abs(r)))
        raise Unsupported('big.Mul with symbolic operands')
    if m in ('String', 'Text'):
        neg, mag = get(it, st, z)
        base = 10 if m == 'String' else it.concrete_int(st, args[1], 'base')
        if conc(mag) and conc(neg):
            v = -mag if neg else mag
            if base == 10:
                return ret(st, mkstr(str(v)))
            if base == 16:
                return ret(st, mkstr(('-' if v < 0 else '') + '%x' % abs(v)))
        from intrinsics_text import format_decimal
        return format_decimal(it, st, neg, mag, W, base)
    if m == 'SetString':
        from intrinsics_text import parse_decimal_big
        return parse_decimal_big(it, st, z, args[1], it.concrete_int(st, args[2], 'base'), put)
    if m in ('MarshalJSON', 'UnmarshalJSON', 'Format', 'GobEncode'):
        raise Unsupported(fname)
    raise Unsupported(fname)


def eqw(a, b):
    if conc(a) and conc(b):
        return a == b
    return bvw(a) == bvw(b)


I.regp('(*math/big.Int).')(big_method)
