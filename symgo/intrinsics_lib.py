# more library models: hashing (uninterpreted, with collision-freedom axioms), ...
import hashlib
import z3
import engine as E
from engine import *
from intrinsics import I, ret, uf_bytes, uf_concrete, py_str


# ------------------------------------------------------------------ SHA-256 / SHA-512 (ideal hash)

def hash_apply(it, st, algo, vals):
    """digest bytes (list of 8-bit values) of an ideal hash over a concrete-length byte list"""
    outbits = {'sha256': 256, 'sha512': 512}[algo]
    if all(not is_sym(x) for x in vals):
        d = hashlib.new(algo, bytes(vals)).digest()
        uf_concrete(it, 'UF_' + algo, vals, int.from_bytes(d, 'big'), outbits)
        out = z3.BitVecVal(int.from_bytes(d, 'big'), outbits)
        res = list(d)
    else:
        out = uf_bytes(it, 'UF_' + algo, vals, outbits)
        res = [z3.Extract(outbits - 1 - 8 * i, outbits - 8 - 8 * i, out) for i in range(outbits // 8)]
    if not it.ctx.hash_injective:
        it.ctx.assumptions.add(f'{algo} is an uninterpreted function of its input bytes (functional consistency only)')
        return res
    inject(it, algo, vals, out, outbits)
    it.ctx.assumptions.add(f'{algo} is an ideal hash: an uninterpreted function of its input bytes with collision freedom (different inputs give different digests)')
    return res


def inject(it, algo, vals, out, outbits):
    """injectivity of an ideal hash / signature through uninterpreted LEFT INVERSES: for every application
    out = F(args) assert inv_i(out) = args[i] and invlen(out) = len(args).  Linear in the number of
    applications, and equal outputs then force equal inputs (of equal length)."""
    key = (algo, out.get_id() if is_sym(out) else out)
    done = it.uf.setdefault('INJ', {})
    if key in done:
        return
    done[key] = out   # keeps the term alive
    n = len(vals)
    o = out if is_sym(out) else z3.BitVecVal(out, outbits)
    cs = []
    ln = it.uf.get(('invlen', algo))
    if ln is None:
        ln = it.uf[('invlen', algo)] = z3.Function(f'UF_invlen_{algo}', z3.BitVecSort(outbits), z3.BitVecSort(32))
    cs.append(ln(o) == n)
    for i, v in enumerate(vals):
        f = it.uf.get(('inv', algo, i))
        if f is None:
            f = it.uf[('inv', algo, i)] = z3.Function(f'UF_inv_{algo}_{i}', z3.BitVecSort(outbits), z3.BitVecSort(8))
        cs.append(f(o) == bv(v, 8))
    it.ctx.axioms.append(z3.And(*cs))


def new_hash(algo):
    def f(it, st, args, fname):
        oid = it.new_obj(st, ('HASH', algo, ()), ('OPAQUE',))
        return ret(st, Iface('$hash', Ptr(oid)))
    return f


I.reg('crypto/sha256.New', new_hash('sha256'))
I.reg('crypto/sha512.New', new_hash('sha512'))


def hash_Write(it, st, args):
    h, p = args
    _, algo, tr = st.heap[h.obj]
    vals = it.slice_values(st, p, 'hash input') if p.obj is not None else []
    st.heap[h.obj] = ('HASH', algo, tr + tuple(vals))
    return ret(st, (len(vals), None))


def hash_Sum(it, st, args):
    h, b = args
    _, algo, tr = st.heap[h.obj]
    d = hash_apply(it, st, algo, list(tr))
    pre = it.slice_values(st, b, 'hash Sum prefix') if b.obj is not None else []
    return ret(st, it.make_slice(st, 'uint8', pre + d))


def hash_Reset(it, st, args):
    h = args[0]
    _, algo, tr = st.heap[h.obj]
    st.heap[h.obj] = ('HASH', algo, ())
    return ret(st)


def hash_Size(it, st, args):
    _, algo, tr = st.heap[args[0].obj]
    return ret(st, 32 if algo == 'sha256' else 64)


I.synth[('$hash', 'Write')] = hash_Write
I.synth[('$hash', 'Sum')] = hash_Sum
I.synth[('$hash', 'Reset')] = hash_Reset
I.synth[('$hash', 'Size')] = hash_Size


@I.reg('crypto/sha256.Sum256')
def sha256_sum256(it, st, args, fname):
    vals = it.slice_values(st, args[0], 'sha256 input') if args[0].obj is not None else []
    return ret(st, tuple(hash_apply(it, st, 'sha256', vals)))


@I.reg('crypto/sha512.Sum512')
def sha512_sum512(it, st, args, fname):
    vals = it.slice_values(st, args[0], 'sha512 input') if args[0].obj is not None else []
    return ret(st, tuple(hash_apply(it, st, 'sha512', vals)))


# ------------------------------------------------------------------ randomness: fresh nondet bytes

def rand_read(it, st, args, fname):
    from intrinsics import nd_bv
    p = args[-1] if isinstance(args[-1], Slice) else args[0]
    n = it.concrete_int(st, p.len, 'rand.Read length')
    for i in range(n):
        it.slice_set(st, p, i, nd_bv(st, 'rand', 8))
    return ret(st, (n, None))


I.reg('crypto/rand.Read', rand_read)
I.reg('math/rand.Read', rand_read)
I.reg('(*crypto/rand.reader).Read', rand_read)
I.synth[('$randreader', 'Read')] = lambda it, st, args: rand_read(it, st, args[1:], 'crypto/rand.Read')


# ------------------------------------------------------------------ string / byte leaves behind the stop list

def _sbytes(it, st, x, what):
    if isinstance(x, Str):
        return list(x.b)
    if isinstance(x, Slice):
        return it.slice_values(st, x, what) if x.obj is not None else []
    raise Unsupported('bytes of ' + repr(x))


def _conc(vals):
    return all(not is_sym(v) for v in vals)


def _eq_at(s, off, sub):
    return AndL(eqv8(s[off + i], sub[i]) for i in range(len(sub)))


@I.reg('internal/stringslite.HasPrefix')
@I.reg('strings.HasPrefix')
@I.reg('bytes.HasPrefix')
def s_hasprefix(it, st, args, fname):
    s, p = _sbytes(it, st, args[0], 's'), _sbytes(it, st, args[1], 'prefix')
    if len(p) > len(s):
        return ret(st, False)
    return ret(st, _eq_at(s, 0, p))


@I.reg('internal/stringslite.HasSuffix')
@I.reg('strings.HasSuffix')
@I.reg('bytes.HasSuffix')
def s_hassuffix(it, st, args, fname):
    s, p = _sbytes(it, st, args[0], 's'), _sbytes(it, st, args[1], 'suffix')
    if len(p) > len(s):
        return ret(st, False)
    return ret(st, _eq_at(s, len(s) - len(p), p))


def _index(it, st, s, sub, last=False):
    """index of first (last) occurrence as a term; -1 if none"""
    n, m = len(s), len(sub)
    if m > n:
        return mask(-1, 64)
    if _conc(s) and _conc(sub):
        bs, bsub = bytes(s), bytes(sub)
        r = bs.rfind(bsub) if last else bs.find(bsub)
        return mask(r, 64)
    res = mask(-1, 64)
    rng = range(0, n - m + 1) if last else range(n - m, -1, -1)
    for off in rng:
        c = to_bool(_eq_at(s, off, sub))
        if c is True:
            res = off
        elif c is not False:
            res = z3.If(c, z3.BitVecVal(off, 64), bv(res, 64))
    return res


@I.reg('internal/stringslite.Index')
@I.reg('internal/bytealg.IndexString')
@I.reg('internal/bytealg.Index')
@I.reg('strings.Index')
@I.reg('bytes.Index')
def s_index(it, st, args, fname):
    return ret(st, _index(it, st, _sbytes(it, st, args[0], 's'), _sbytes(it, st, args[1], 'sep')))


@I.reg('strings.LastIndex')
def s_lastindex(it, st, args, fname):
    return ret(st, _index(it, st, _sbytes(it, st, args[0], 's'), _sbytes(it, st, args[1], 'sep'), last=True))


@I.reg('internal/stringslite.IndexByte')
@I.reg('internal/bytealg.IndexByteString')
@I.reg('internal/bytealg.IndexByte')
@I.reg('strings.IndexByte')
@I.reg('bytes.IndexByte')
def s_indexbyte(it, st, args, fname):
    return ret(st, _index(it, st, _sbytes(it, st, args[0], 's'), [args[1]]))


@I.reg('strings.Contains')
def s_contains(it, st, args, fname):
    r = _index(it, st, _sbytes(it, st, args[0], 's'), _sbytes(it, st, args[1], 'sub'))
    return ret(st, Not(eqv64(r, mask(-1, 64))))


@I.reg('internal/bytealg.Equal')
@I.reg('bytes.Equal')
def s_equal(it, st, args, fname):
    a, b = args
    x, y = _sbytes(it, st, a, 'a'), _sbytes(it, st, b, 'b')
    if len(x) != len(y):
        return ret(st, False)
    return ret(st, _eq_at(x, 0, y))


@I.reg('internal/bytealg.Compare')
@I.reg('internal/bytealg.CompareString')
@I.reg('bytes.Compare')
@I.reg('strings.Compare')
def s_compare(it, st, args, fname):
    x, y = _sbytes(it, st, args[0], 'a'), _sbytes(it, st, args[1], 'b')
    n = min(len(x), len(y))
    tail = 0 if len(x) == len(y) else (mask(-1, 64) if len(x) < len(y) else 1)
    res = tail
    for i in range(n - 1, -1, -1):
        a, b = x[i], y[i]
        if not is_sym(a) and not is_sym(b):
            if a != b:
                res = mask(-1, 64) if a < b else 1
            continue
        A, B = bv(a, 8), bv(b, 8)
        res = z3.If(A == B, bv(res, 64), z3.If(z3.ULT(A, B), z3.BitVecVal(mask(-1, 64), 64), z3.BitVecVal(1, 64)))
    return ret(st, res)


@I.reg('internal/bytealg.CountString')
@I.reg('internal/bytealg.Count')
def s_count(it, st, args, fname):
    s = _sbytes(it, st, args[0], 's')
    c = args[1]
    n = 0
    for b in s:
        e = to_bool(eqv8(b, c))
        if e is True:
            n = add64(n, 1)
        elif e is not False:
            n = add64(n, z3.If(e, z3.BitVecVal(1, 64), z3.BitVecVal(0, 64)))
    return ret(st, n)


@I.reg('internal/bytealg.MakeNoZero')
def s_makenozero(it, st, args, fname):
    n = it.concrete_int(st, args[0], 'MakeNoZero length')
    return ret(st, it.make_slice(st, 'uint8', [0] * n))


@I.reg('internal/stringslite.Clone')
@I.reg('strings.Clone')
def s_clone(it, st, args, fname):
    return ret(st, args[0])


# ------------------------------------------------------------------ ed25519 (ideal signature)

def _sig(it, st, pub, msg):
    vals = list(pub) + list(msg)
    out = uf_bytes(it, 'UF_ed25519sig', vals, 512)
    if it.ctx.hash_injective:
        inject(it, 'ed25519sig', vals, out, 512)
    it.ctx.assumptions.add('ed25519 is an ideal signature scheme: Sign is an uninterpreted function of (public key, message); Verify accepts exactly that value')
    return [z3.Extract(511 - 8 * i, 504 - 8 * i, out) for i in range(64)]


@I.reg('crypto/ed25519.Sign')
def ed_sign(it, st, args, fname):
    priv, msg = args
    it.vc(st, eqv64(priv.len, 64), 'ed25519.Sign:bad-private-key-length')
    pv = it.slice_values(st, priv, 'private key')
    mv = it.slice_values(st, msg, 'signed message') if msg.obj is not None else []
    return ret(st, it.make_slice(st, 'uint8', _sig(it, st, pv[32:64], mv)))


@I.reg('crypto/ed25519.Verify')
def ed_verify(it, st, args, fname):
    pub, msg, sig = args
    it.vc(st, eqv64(pub.len, 32), 'ed25519.Verify:bad-public-key-length')
    pv = it.slice_values(st, pub, 'public key')
    mv = it.slice_values(st, msg, 'verified message') if msg.obj is not None else []
    n = it.concrete_int(st, sig.len, 'signature length') if sig.obj is not None else 0
    if n != 64:
        return ret(st, False)
    sv = it.slice_values(st, sig, 'signature')
    want = _sig(it, st, pv, mv)
    return ret(st, AndL(eqv8(a, b) for a, b in zip(sv, want)))


@I.reg('(crypto/ed25519.PrivateKey).Public')
def ed_public(it, st, args, fname):
    priv = args[0]
    it.vc(st, eqv64(priv.len, 64), 'ed25519.Public:bad-private-key-length')
    pub = Slice(priv.obj, priv.path, simp_i(add64(priv.off, 32)), 32, 32)
    # an independent copy, like the real function
    vals = it.slice_values(st, pub, 'public key')
    return ret(st, Iface('crypto/ed25519.PublicKey', it.make_slice(st, 'uint8', vals)))


@I.reg('crypto/ed25519.NewKeyFromSeed')
def ed_newkey(it, st, args, fname):
    seed = it.slice_values(st, args[0], 'seed')
    out = uf_bytes(it, 'UF_ed25519pub', seed, 256)
    pub = [z3.Extract(255 - 8 * i, 248 - 8 * i, out) for i in range(32)]
    return ret(st, it.make_slice(st, 'uint8', seed + pub))


# ------------------------------------------------------------------ time: (seconds, nanoseconds) pairs, symbolic non-decreasing clock

def mk_time(sec, nsec):
    t = E.ty('time.Time')
    vals = []
    for f in t['fields']:
        if f['name'] == 'wall':
            vals.append(nsec)
        elif f['name'] == 'ext':
            vals.append(sec)
        else:
            vals.append(None)
    return tuple(vals)


def time_parts(tv):
    t = E.ty('time.Time')
    sec = nsec = 0
    for f, v in zip(t['fields'], tv):
        if f['name'] == 'wall':
            nsec = v
        elif f['name'] == 'ext':
            sec = v
    return sec, nsec


@I.reg('time.Unix')
def t_unix(it, st, args, fname):
    it.ctx.assumptions.add('time.Time is modelled as (seconds, nanoseconds); time.Unix(sec, nsec) is used with 0 <= nsec < 1e9')
    return ret(st, mk_time(args[0], args[1]))


@I.reg('(time.Time).Unix')
def t_time_unix(it, st, args, fname):
    if is_ns(args[0]):
        tot = time_parts(args[0])[0]
        if is_sym(tot):
            raise Unsupported('Unix() of a symbolic clock reading (division by 1e9)')
        return ret(st, mask(tosigned(tot, 64) // 1000000000, 64))
    return ret(st, time_parts(args[0])[0])


class _NS:
    """marker stored in the loc field of a modelled time.Time: `ext` holds total nanoseconds"""
    def __repr__(self):
        return 'NS'


NS = _NS()


def mk_time_ns(total):
    t = E.ty('time.Time')
    vals = []
    for f in t['fields']:
        if f['name'] == 'ext':
            vals.append(total)
        elif f['name'] == 'wall':
            vals.append(0)
        else:
            vals.append(NS)
    return tuple(vals)


def is_ns(tv):
    return any(v is NS for v in tv)


def total_ns(tv):
    s_, n_ = time_parts(tv)
    if is_ns(tv):
        return s_
    return simp_i(add64(mul64(s_, 1000000000), n_))


@I.reg('time.Now')
def t_now(it, st, args, fname):
    from intrinsics import nd_bv
    last = st.heap.get(('CLOCK',), None)
    if it.ctx.concrete_clock:
        # deterministic clock: every reading is 1 ms after the previous one plus the time slept
        slept = st.heap.get(('SLEPT',), 0)
        now = (1700000000 * 1000000000) if last is None else simp_i(add64(add64(last, slept), 1000000))
        st.heap[('SLEPT',)] = 0
        st.heap[('CLOCK',)] = now
        it.ctx.assumptions.add('concrete clock: a reading of time.Now is 1 ms after the previous one plus the time slept in between')
        return ret(st, mk_time_ns(now))
    now = nd_bv(st, 'clock-ns', 64)
    st.pc.append(z3.And(now >= 0, now < (1 << 61)))
    if last is not None:
        slept = st.heap.get(('SLEPT',), 0)
        st.pc.append(now >= bv(last, 64) + bv(slept, 64))
    st.heap[('SLEPT',)] = 0
    st.heap[('CLOCK',)] = now
    it.ctx.assumptions.add('time.Now returns an arbitrary non-decreasing instant (nanoseconds < 2^61); time.Sleep(d) makes the next reading at least d later')
    return ret(st, mk_time_ns(now))


def dur(a, b):
    """a - b as nanoseconds (Duration)"""
    return simp_i(sub64(total_ns(a), total_ns(b)))


def mul64(a, c):
    if not is_sym(a):
        return mask(tosigned(a, 64) * c, 64)
    return a * z3.BitVecVal(c, 64)


@I.reg('(time.Time).Sub')
def t_sub(it, st, args, fname):
    return ret(st, dur(args[0], args[1]))


@I.reg('time.Since')
def t_since(it, st, args, fname):
    now = t_now(it, st, [], 'time.Now')[0][1]
    return ret(st, dur(now, args[0]))


@I.reg('time.Sleep')
def t_sleep(it, st, args, fname):
    # the clock advances by at least d before the next reading
    d = args[0]
    cur = st.heap.get(('SLEPT',), 0)
    if is_sym(d):
        st.pc.append(z3.And(d >= 0, d < (1 << 50)))
    elif tosigned(d, 64) < 0:
        d = 0
    st.heap[('SLEPT',)] = simp_i(add64(cur, d))
    return ret(st)


@I.reg('(time.Time).Add')
def t_add(it, st, args, fname):
    s, n = time_parts(args[0])
    d = args[1]
    if is_ns(args[0]):
        # a clock reading: `ext` holds total nanoseconds
        return ret(st, mk_time_ns(simp_i(add64(s, d))))
    if not is_sym(d):
        dd = tosigned(d, 64)
        ds, dn = divmod(dd, 1000000000)
        if is_sym(n) or (n + dn) >= 1000000000:
            if is_sym(n):
                carry = z3.If(bv(n, 64) + dn >= 1000000000, z3.BitVecVal(1, 64), z3.BitVecVal(0, 64))
                return ret(st, mk_time(simp_i(add64(add64(s, ds), carry)), simp_i(z3.If(carry == 1, bv(n, 64) + dn - 1000000000, bv(n, 64) + dn))))
            return ret(st, mk_time(add64(s, ds + 1), n + dn - 1000000000))
        return ret(st, mk_time(add64(s, ds), n + dn))
    raise Unsupported('time.Add of a symbolic duration')


@I.reg('(time.Time).Before')
def t_before(it, st, args, fname):
    d = dur(args[0], args[1])
    return ret(st, slt(d, 0))


@I.reg('(time.Time).After')
def t_after(it, st, args, fname):
    d = dur(args[0], args[1])
    return ret(st, slt(0, d))


@I.reg('(time.Time).IsZero')
def t_iszero(it, st, args, fname):
    s, n = time_parts(args[0])
    return ret(st, And(eqv64(s, 0), eqv64(n, 0)))


# ------------------------------------------------------------------ context (a context is an opaque token; harness stubs ignore it)

@I.reg('context.Background')
@I.reg('context.TODO')
def ctx_background(it, st, args, fname):
    return ret(st, Iface('$ctx', None))


@I.reg('(time.Time).UTC')
@I.reg('(time.Time).Local')
@I.reg('(time.Time).Round')
@I.reg('(time.Time).Truncate')
def t_utc(it, st, args, fname):
    if fname.endswith('Round') or fname.endswith('Truncate'):
        raise Unsupported(fname)
    return ret(st, args[0])


@I.reg('math/rand.Uint32')
@I.reg('math/rand.Int31')
def rand_u32(it, st, args, fname):
    from intrinsics import nd_bv
    v = nd_bv(st, 'rand32', 32)
    if fname.endswith('Int31'):
        v = v & 0x7fffffff
    return ret(st, v)


@I.reg('math/rand.Uint64')
@I.reg('math/rand.Int63')
def rand_u64(it, st, args, fname):
    from intrinsics import nd_bv
    v = nd_bv(st, 'rand64', 64)
    if fname.endswith('Int63'):
        v = v & 0x7fffffffffffffff
    return ret(st, v)


# ------------------------------------------------------------------ slices (the generic implementations use unsafe)

@I.regp('slices.Insert[')
def slices_insert(it, st, args, fname):
    s, i, vs = args
    et = None
    for x in (s, vs):
        if isinstance(x, Slice) and x.obj is not None:
            arr, et = it.slice_elems(st, x)
            break
    old = it.slice_values(st, s, 'slices.Insert target') if s.obj is not None else []
    new = it.slice_values(st, vs, 'slices.Insert values') if vs.obj is not None else []
    idx = it.concrete_int(st, i, 'slices.Insert index')
    if idx < 0 or idx > len(old):
        it.violated(st, 'slices.Insert:index')
    vals = old[:idx] + new + old[idx:]
    if et is None:
        return ret(st, s)
    return ret(st, it.make_slice(st, et, vals))


# ------------------------------------------------------------------ strings.Builder (uses unsafe internally)

@I.reg('(*strings.Builder).copyCheck')
def sb_copycheck(it, st, args, fname):
    return ret(st)


@I.reg('(*strings.Builder).String')
def sb_string(it, st, args, fname):
    b = it.load(st, args[0], 'strings.Builder')
    t = E.ty('strings.Builder')
    idx = [i for i, f in enumerate(t['fields']) if f['name'] == 'buf'][0]
    sl = b[idx]
    if sl.obj is None:
        return ret(st, Str(()))
    return ret(st, Str(it.slice_values(st, sl, 'strings.Builder content')))


@I.reg('unsafe.String')
def unsafe_string(it, st, args, fname):
    raise Unsupported('unsafe.String')


# ------------------------------------------------------------------ encoding/json.Marshal of a plain string
# (the only use modelled: json.Marshal(someString) in hand-rolled MarshalJSON methods).  The text is
# emitted between quotes when every character is provably one that encoding/json does not escape.

@I.reg('encoding/json.Marshal')
def json_marshal(it, st, args, fname):
    a = args[0]
    v = a.v if isinstance(a, Iface) else None
    if not isinstance(v, Str):
        raise Unsupported('encoding/json.Marshal of a non-string value (reflection not modelled)')
    for ch in v.b:
        if is_sym(ch):
            unsafe = z3.Or(z3.ULT(ch, 0x20), z3.UGE(ch, 0x7f), ch == ord('"'), ch == ord('\\'), ch == ord('<'), ch == ord('>'), ch == ord('&'))
            if it.feasible(st.pc, unsafe):
                raise Unsupported('encoding/json.Marshal of a string with a possibly escaped symbolic character')
        elif ch < 0x20 or ch >= 0x7f or ch in (ord('"'), ord('\\'), ord('<'), ord('>'), ord('&')):
            raise Unsupported('encoding/json.Marshal of a string that needs escaping')
    out = [ord('"')] + list(v.b) + [ord('"')]
    return ret(st, (it.make_slice(st, 'uint8', out), None))


# ------------------------------------------------------------------ AES-CTR as an ideal stream cipher
# aes.NewCipher(key) -> opaque block; cipher.NewCTR(block, iv) -> a stream whose key stream is an
# uninterpreted function of (stream creation number, position): arbitrary but fixed bytes.  Nothing that
# depends on these bytes may be observed for native comparison (the real run uses real AES).

@I.reg('crypto/aes.NewCipher')
def aes_newcipher(it, st, args, fname):
    n = it.concrete_int(st, args[0].len, 'AES key length')
    if n not in (16, 24, 32):
        raise Unsupported('aes.NewCipher with an invalid key length (error path not modelled)')
    oid = it.new_obj(st, ('AESBLOCK', tuple(it.slice_values(st, args[0], 'aes key'))), ('OPAQUE',))
    it.ctx.assumptions.add('AES-CTR is an ideal stream cipher: key stream bytes are uninterpreted (arbitrary, fixed per stream and position)')
    return ret(st, (Iface('$aesblock', Ptr(oid)), None))


@I.reg('crypto/cipher.NewCTR')
def cipher_newctr(it, st, args, fname):
    k = st.nd.get('$ctr', 0)
    st.nd['$ctr'] = k + 1
    oid = it.new_obj(st, ('CTR', k, 0), ('OPAQUE',))
    return ret(st, Iface('$ctr', Ptr(oid)))


def ctr_xor(it, st, args):
    h, dst, src = args
    _, k, pos = st.heap[h.obj]
    vals = it.slice_values(st, src, 'XORKeyStream src') if src.obj is not None else []
    f = it.uf.get(('ctr', k))
    if f is None:
        f = it.uf[('ctr', k)] = z3.Function(f'UF_ctr_{k}', z3.BitVecSort(32), z3.BitVecSort(8))
    out = [z3.simplify((v if is_sym(v) else z3.BitVecVal(v, 8)) ^ f(z3.BitVecVal(pos + i, 32))) for i, v in enumerate(vals)]
    st.heap[h.obj] = ('CTR', k, pos + len(vals))
    if out:
        tmp = it.make_slice(st, 'uint8', out)
        it.do_copy(st, dst, tmp)
    return ret(st)


I.synth[('$ctr', 'XORKeyStream')] = ctr_xor


@I.reg('encoding/json.Unmarshal')
def json_unmarshal(it, st, args, fname):
    """json.Unmarshal(data, &s) for a *string destination and a plain quoted text (no escapes)"""
    data, dst = args
    v = dst.v if isinstance(dst, Iface) else None
    t = dst.t if isinstance(dst, Iface) else ''
    if not isinstance(v, Ptr) or not (t.endswith('*string') or t == '*string'):
        raise Unsupported(f'encoding/json.Unmarshal into {t} (reflection not modelled)')
    vals = it.slice_values(st, data, 'json text')
    if len(vals) < 2 or is_sym(vals[0]) or is_sym(vals[-1]) or vals[0] != ord('"') or vals[-1] != ord('"'):
        raise Unsupported('encoding/json.Unmarshal of a text that is not a plain quoted string')
    for ch in vals[1:-1]:
        if is_sym(ch):
            unsafe = z3.Or(z3.ULT(ch, 0x20), z3.UGE(ch, 0x7f), ch == ord('"'), ch == ord('\\'))
            if it.feasible(st.pc, unsafe):
                raise Unsupported('encoding/json.Unmarshal of a string with a possibly escaped symbolic character')
        elif ch < 0x20 or ch >= 0x7f or ch in (ord('"'), ord('\\')):
            raise Unsupported('encoding/json.Unmarshal of a string with escapes')
    it.store(st, v, Str(list(vals[1:-1])), 'json.Unmarshal:store')
    return ret(st, None)


# ------------------------------------------------------------------ context with cancellation (no time passing)
# WithTimeout / WithDeadline / WithCancel give a child context with its own Done channel and a cancel
# function.  The model has no passing of time: a deadline is never reached inside one explored step, so
# Done() becomes ready only through cancel().  (Stated in the evidence as an assumption.)

def _ctx_deadline(st, c):
    """deadline of a modelled context in nanoseconds of waiting time (None: no deadline)"""
    if c is None or not isinstance(c, Iface) or c.v is None:
        return None
    h = st.heap[c.v.obj]
    return h[3] if len(h) > 3 else None


def _new_ctx(it, st, parent, deadline=None):
    ch = it.new_obj(st, ('CH', 0, (), False), ('CH', 'struct{}'))
    pd = _ctx_deadline(st, parent)
    if pd is not None and (deadline is None or pd < deadline):
        deadline = pd
    oid = it.new_obj(st, ('CTX', ch, False, deadline, ''), ('OPAQUE',))
    it.ctx.assumptions.add('time passes only while a blocking select has no ready case: it then advances to the earliest deadline among the contexts selected on and that context expires; otherwise Done() fires only on cancel()')
    return Iface('$ctx', Ptr(oid)), FuncVal(f'$ctxcancel:{oid}')


@I.reg('context.WithTimeout')
def ctx_with_timeout(it, st, args, fname):
    d = args[1]
    if is_sym(d):
        raise Unsupported('context.WithTimeout of a symbolic duration')
    c, cancel = _new_ctx(it, st, args[0], st.heap.get(('WAITED',), 0) + tosigned(d, 64))
    return ret(st, (c, cancel))


@I.reg('context.WithDeadline')
@I.reg('context.WithCancel')
def ctx_with(it, st, args, fname):
    c, cancel = _new_ctx(it, st, args[0])
    return ret(st, (c, cancel))


@I.regp('$ctxcancel:')
def ctx_cancel(it, st, args, fname):
    oid = int(fname.split(':', 1)[1])
    h = st.heap[oid]
    ch, cancelled = h[1], h[2]
    if not cancelled:
        st.heap[oid] = ('CTX', ch, True, h[3] if len(h) > 3 else None, 'context canceled')
        _, cp, items, closed = st.heap[ch]
        st.heap[ch] = ('CH', cp, items, True)
    return ret(st)


def ctx_expire_earliest(st, chan_objs):
    """a blocking select found nothing ready: among the given channel objects find the Done channel of the
    context with the earliest deadline, let the waiting time advance to it and expire that context.
    Returns the channel object that became ready, or None."""
    best = None
    for oid, h in list(st.heap.items()):
        if isinstance(h, tuple) and len(h) > 3 and isinstance(h[0], str) and h[0] == 'CTX' and not h[2] and h[3] is not None and h[1] in chan_objs:
            if best is None or h[3] < best[1][3]:
                best = (oid, h)
    if best is None:
        return None
    oid, h = best
    st.heap[('WAITED',)] = max(st.heap.get(('WAITED',), 0), h[3])
    st.heap[oid] = ('CTX', h[1], True, h[3], 'context deadline exceeded')
    _, cp, items, closed = st.heap[h[1]]
    st.heap[h[1]] = ('CH', cp, items, True)
    return h[1]


def ctx_done(it, st, args):
    c = args[0]
    if c is None:
        return ret(st, None)          # Background: a nil channel, never ready
    return ret(st, Ptr(st.heap[c.obj][1]))


def ctx_err(it, st, args):
    c = args[0]
    if c is None or not st.heap[c.obj][2]:
        return ret(st, None)
    h = st.heap[c.obj]
    txt = (h[4] if len(h) > 4 and h[4] else 'context canceled').encode()
    oid = it.new_obj(st, ('FMTERR', Str(list(txt)), ()), ('OPAQUE',))
    return ret(st, Iface('$fmterr', Ptr(oid)))


def ctx_deadline(it, st, args):
    c = args[0]
    h = st.heap[c.obj] if c is not None else None
    d = h[3] if h is not None and len(h) > 3 else None
    if d is None:
        return ret(st, (mk_time_ns(0), False))
    return ret(st, (mk_time_ns(1700000000 * 1000000000 + d), True))


def ctx_value(it, st, args):
    return ret(st, None)


I.synth[('$ctx', 'Done')] = ctx_done
I.synth[('$ctx', 'Err')] = ctx_err
I.synth[('$ctx', 'Deadline')] = ctx_deadline
I.synth[('$ctx', 'Value')] = ctx_value


@I.reg('time.After')
def time_after(it, st, args, fname):
    """no passing of time inside an explored step: the timer channel never becomes ready"""
    it.ctx.assumptions.add('time.After never fires within an explored step (no passing of time)')
    return ret(st, Ptr(it.new_obj(st, ('CH', 1, (), False), ('CH', 'time.Time'))))


# ------------------------------------------------------------------ HMAC as an ideal MAC
# hmac.New(h, key): a hash object whose transcript starts with a domain separator and the key, i.e.
# mac(key, data) = H("HMAC" | len(key) | key | data) with the ideal H.  (Real HMAC differs bit for bit;
# nothing depending on MAC bytes may be observed for native comparison.)

@I.reg('crypto/hmac.New')
def hmac_new(it, st, args, fname):
    key = it.slice_values(st, args[1], 'hmac key') if args[1].obj is not None else []
    pre = tuple(b'HMAC') + (len(key) & 0xff, (len(key) >> 8) & 0xff) + tuple(key)
    oid = it.new_obj(st, ('HASH', 'sha256', pre), ('OPAQUE',))
    it.ctx.assumptions.add('HMAC-SHA256 is an ideal MAC: an uninterpreted function of key and message')
    return ret(st, Iface('$hash', Ptr(oid)))


@I.reg('crypto/subtle.ConstantTimeCompare')
def subtle_ctc(it, st, args, fname):
    a = it.slice_values(st, args[0], 'ConstantTimeCompare') if args[0].obj is not None else []
    b = it.slice_values(st, args[1], 'ConstantTimeCompare') if args[1].obj is not None else []
    if len(a) != len(b):
        return ret(st, 0)
    eq = True
    for x, y in zip(a, b):
        eq = And(eq, eqv8(x, y))
    if eq is True or eq is False:
        return ret(st, 1 if eq else 0)
    return ret(st, z3.If(eq, z3.BitVecVal(1, 64), z3.BitVecVal(0, 64)))
