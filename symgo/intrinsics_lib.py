# more library models: hashing (uninterpreted, with collision-freedom axioms), ...
import hashlib
import z3
import engine as E
from engine import *
from intrinsics import I, ret, uf_bytes, py_str


# ------------------------------------------------------------------ SHA-256 / SHA-512 (ideal hash)

def hash_apply(it, st, algo, vals):
    """digest bytes (list of 8-bit values) of an ideal hash over a concrete-length byte list"""
    outbits = {'sha256': 256, 'sha512': 512}[algo]
    if all(not is_sym(x) for x in vals):
        d = hashlib.new(algo, bytes(vals)).digest()
        out = z3.BitVecVal(int.from_bytes(d, 'big'), outbits)
        res = list(d)
    else:
        out = uf_bytes(it, 'UF_' + algo, vals, outbits)
        res = [z3.Extract(outbits - 1 - 8 * i, outbits - 8 - 8 * i, out) for i in range(outbits // 8)]
    if not it.ctx.hash_injective:
        it.ctx.assumptions.add(f'{algo} is an uninterpreted function of its input bytes (functional consistency only)')
        return res
    # collision freedom against every earlier application on this path
    key = ('HASHAPPS', algo)
    apps = st.heap.get(key, ())
    n = len(vals)
    for (n2, args2, out2) in apps:
        if out2 is out or (is_sym(out2) and out2.eq(out)):
            continue
        if n2 != n:
            c = out != out2
        else:
            same = AndL(eqv8(a, b) for a, b in zip(vals, args2))
            same = to_bool(same)
            if same is True:
                continue
            c = (out != out2) if same is False else z3.Or(same, out != out2)
        c = z3.simplify(c)
        if z3.is_true(c):
            continue
        # an instance of the (global) injectivity axiom of the ideal hash: valid on every path
        it.ctx.axioms.append(c)
    st.heap[key] = apps + ((n, tuple(vals), out),)
    it.ctx.assumptions.add(f'{algo} is an ideal hash: an uninterpreted function of its input bytes with collision freedom (different inputs give different digests)')
    return res


def new_hash(algo):
    def f(it, st, args, fname):
        oid = it.new_obj(st, ('HASH', algo, ()), ('OPAQUE',))
        return ret(st, Iface('$hash', Ptr(oid)))
    return f


I.reg('crypto/sha256.New', new_hash('sha256'))
I.reg('crypto/sha512.New', new_hash('sha512'))


def hash_Write(it, st, args):
    h, p = args
    _, algo, tr = st.heap[h.obj]
    vals = it.slice_values(st, p, 'hash input') if p.obj is not None else []
    st.heap[h.obj] = ('HASH', algo, tr + tuple(vals))
    return ret(st, (len(vals), None))


def hash_Sum(it, st, args):
    h, b = args
    _, algo, tr = st.heap[h.obj]
    d = hash_apply(it, st, algo, list(tr))
    pre = it.slice_values(st, b, 'hash Sum prefix') if b.obj is not None else []
    return ret(st, it.make_slice(st, 'uint8', pre + d))


def hash_Reset(it, st, args):
    h = args[0]
    _, algo, tr = st.heap[h.obj]
    st.heap[h.obj] = ('HASH', algo, ())
    return ret(st)


def hash_Size(it, st, args):
    _, algo, tr = st.heap[args[0].obj]
    return ret(st, 32 if algo == 'sha256' else 64)


I.synth[('$hash', 'Write')] = hash_Write
I.synth[('$hash', 'Sum')] = hash_Sum
I.synth[('$hash', 'Reset')] = hash_Reset
I.synth[('$hash', 'Size')] = hash_Size


@I.reg('crypto/sha256.Sum256')
def sha256_sum256(it, st, args, fname):
    vals = it.slice_values(st, args[0], 'sha256 input') if args[0].obj is not None else []
    return ret(st, tuple(hash_apply(it, st, 'sha256', vals)))


@I.reg('crypto/sha512.Sum512')
def sha512_sum512(it, st, args, fname):
    vals = it.slice_values(st, args[0], 'sha512 input') if args[0].obj is not None else []
    return ret(st, tuple(hash_apply(it, st, 'sha512', vals)))


# ------------------------------------------------------------------ randomness: fresh nondet bytes

def rand_read(it, st, args, fname):
    from intrinsics import nd_bv
    p = args[-1] if isinstance(args[-1], Slice) else args[0]
    n = it.concrete_int(st, p.len, 'rand.Read length')
    for i in range(n):
        it.slice_set(st, p, i, nd_bv(st, 'rand', 8))
    return ret(st, (n, None))


I.reg('crypto/rand.Read', rand_read)
I.reg('math/rand.Read', rand_read)
I.reg('(*crypto/rand.reader).Read', rand_read)


# ------------------------------------------------------------------ string / byte leaves behind the stop list

def _sbytes(it, st, x, what):
    if isinstance(x, Str):
        return list(x.b)
    if isinstance(x, Slice):
        return it.slice_values(st, x, what) if x.obj is not None else []
    raise Unsupported('bytes of ' + repr(x))


def _conc(vals):
    return all(not is_sym(v) for v in vals)


def _eq_at(s, off, sub):
    return AndL(eqv8(s[off + i], sub[i]) for i in range(len(sub)))


@I.reg('internal/stringslite.HasPrefix')
@I.reg('strings.HasPrefix')
@I.reg('bytes.HasPrefix')
def s_hasprefix(it, st, args, fname):
    s, p = _sbytes(it, st, args[0], 's'), _sbytes(it, st, args[1], 'prefix')
    if len(p) > len(s):
        return ret(st, False)
    return ret(st, _eq_at(s, 0, p))


@I.reg('internal/stringslite.HasSuffix')
@I.reg('strings.HasSuffix')
@I.reg('bytes.HasSuffix')
def s_hassuffix(it, st, args, fname):
    s, p = _sbytes(it, st, args[0], 's'), _sbytes(it, st, args[1], 'suffix')
    if len(p) > len(s):
        return ret(st, False)
    return ret(st, _eq_at(s, len(s) - len(p), p))


def _index(it, st, s, sub, last=False):
    """index of first (last) occurrence as a term; -1 if none"""
    n, m = len(s), len(sub)
    if m > n:
        return mask(-1, 64)
    if _conc(s) and _conc(sub):
        bs, bsub = bytes(s), bytes(sub)
        r = bs.rfind(bsub) if last else bs.find(bsub)
        return mask(r, 64)
    res = mask(-1, 64)
    rng = range(0, n - m + 1) if last else range(n - m, -1, -1)
    for off in rng:
        c = to_bool(_eq_at(s, off, sub))
        if c is True:
            res = off
        elif c is not False:
            res = z3.If(c, z3.BitVecVal(off, 64), bv(res, 64))
    return res


@I.reg('internal/stringslite.Index')
@I.reg('internal/bytealg.IndexString')
@I.reg('internal/bytealg.Index')
@I.reg('strings.Index')
@I.reg('bytes.Index')
def s_index(it, st, args, fname):
    return ret(st, _index(it, st, _sbytes(it, st, args[0], 's'), _sbytes(it, st, args[1], 'sep')))


@I.reg('strings.LastIndex')
def s_lastindex(it, st, args, fname):
    return ret(st, _index(it, st, _sbytes(it, st, args[0], 's'), _sbytes(it, st, args[1], 'sep'), last=True))


@I.reg('internal/stringslite.IndexByte')
@I.reg('internal/bytealg.IndexByteString')
@I.reg('internal/bytealg.IndexByte')
@I.reg('strings.IndexByte')
@I.reg('bytes.IndexByte')
def s_indexbyte(it, st, args, fname):
    return ret(st, _index(it, st, _sbytes(it, st, args[0], 's'), [args[1]]))


@I.reg('strings.Contains')
def s_contains(it, st, args, fname):
    r = _index(it, st, _sbytes(it, st, args[0], 's'), _sbytes(it, st, args[1], 'sub'))
    return ret(st, Not(eqv64(r, mask(-1, 64))))


@I.reg('internal/bytealg.Equal')
@I.reg('bytes.Equal')
def s_equal(it, st, args, fname):
    a, b = args
    x, y = _sbytes(it, st, a, 'a'), _sbytes(it, st, b, 'b')
    if len(x) != len(y):
        return ret(st, False)
    return ret(st, _eq_at(x, 0, y))


@I.reg('internal/bytealg.Compare')
@I.reg('internal/bytealg.CompareString')
@I.reg('bytes.Compare')
@I.reg('strings.Compare')
def s_compare(it, st, args, fname):
    x, y = _sbytes(it, st, args[0], 'a'), _sbytes(it, st, args[1], 'b')
    n = min(len(x), len(y))
    tail = 0 if len(x) == len(y) else (mask(-1, 64) if len(x) < len(y) else 1)
    res = tail
    for i in range(n - 1, -1, -1):
        a, b = x[i], y[i]
        if not is_sym(a) and not is_sym(b):
            if a != b:
                res = mask(-1, 64) if a < b else 1
            continue
        A, B = bv(a, 8), bv(b, 8)
        res = z3.If(A == B, bv(res, 64), z3.If(z3.ULT(A, B), z3.BitVecVal(mask(-1, 64), 64), z3.BitVecVal(1, 64)))
    return ret(st, res)


@I.reg('internal/bytealg.CountString')
@I.reg('internal/bytealg.Count')
def s_count(it, st, args, fname):
    s = _sbytes(it, st, args[0], 's')
    c = args[1]
    n = 0
    for b in s:
        e = to_bool(eqv8(b, c))
        if e is True:
            n = add64(n, 1)
        elif e is not False:
            n = add64(n, z3.If(e, z3.BitVecVal(1, 64), z3.BitVecVal(0, 64)))
    return ret(st, n)


@I.reg('internal/bytealg.MakeNoZero')
def s_makenozero(it, st, args, fname):
    n = it.concrete_int(st, args[0], 'MakeNoZero length')
    return ret(st, it.make_slice(st, 'uint8', [0] * n))


@I.reg('internal/stringslite.Clone')
@I.reg('strings.Clone')
def s_clone(it, st, args, fname):
    return ret(st, args[0])
