# more library models: hashing (uninterpreted, with collision-freedom axioms), ...
import hashlib
import z3
import engine as E
from engine import *
from intrinsics import I, ret, uf_bytes, py_str


# ------------------------------------------------------------------ SHA-256 / SHA-512 (ideal hash)

def hash_apply(it, st, algo, vals):
    """digest bytes (list of 8-bit values) of an ideal hash over a concrete-length byte list"""
    outbits = {'sha256': 256, 'sha512': 512}[algo]
    if all(not is_sym(x) for x in vals):
        d = hashlib.new(algo, bytes(vals)).digest()
        out = z3.BitVecVal(int.from_bytes(d, 'big'), outbits)
        res = list(d)
    else:
        out = uf_bytes(it, 'UF_' + algo, vals, outbits)
        res = [z3.Extract(outbits - 1 - 8 * i, outbits - 8 - 8 * i, out) for i in range(outbits // 8)]
    # collision freedom against every earlier application on this path
    key = ('HASHAPPS', algo)
    apps = st.heap.get(key, ())
    n = len(vals)
    for (n2, args2, out2) in apps:
        if out2 is out or (is_sym(out2) and out2.eq(out)):
            continue
        if n2 != n:
            c = out != out2
        else:
            same = AndL(eqv8(a, b) for a, b in zip(vals, args2))
            same = to_bool(same)
            if same is True:
                continue
            c = (out != out2) if same is False else z3.Or(same, out != out2)
        c = z3.simplify(c)
        if z3.is_true(c):
            continue
        st.pc.append(c)
    st.heap[key] = apps + ((n, tuple(vals), out),)
    it.ctx.assumptions.add(f'{algo} is an ideal hash: an uninterpreted function of its input bytes with collision freedom (different inputs give different digests)')
    return res


def new_hash(algo):
    def f(it, st, args, fname):
        oid = it.new_obj(st, ('HASH', algo, ()), ('OPAQUE',))
        return ret(st, Iface('$hash', Ptr(oid)))
    return f


I.reg('crypto/sha256.New', new_hash('sha256'))
I.reg('crypto/sha512.New', new_hash('sha512'))


def hash_Write(it, st, args):
    h, p = args
    _, algo, tr = st.heap[h.obj]
    vals = it.slice_values(st, p, 'hash input') if p.obj is not None else []
    st.heap[h.obj] = ('HASH', algo, tr + tuple(vals))
    return ret(st, (len(vals), None))


def hash_Sum(it, st, args):
    h, b = args
    _, algo, tr = st.heap[h.obj]
    d = hash_apply(it, st, algo, list(tr))
    pre = it.slice_values(st, b, 'hash Sum prefix') if b.obj is not None else []
    return ret(st, it.make_slice(st, 'uint8', pre + d))


def hash_Reset(it, st, args):
    h = args[0]
    _, algo, tr = st.heap[h.obj]
    st.heap[h.obj] = ('HASH', algo, ())
    return ret(st)


def hash_Size(it, st, args):
    _, algo, tr = st.heap[args[0].obj]
    return ret(st, 32 if algo == 'sha256' else 64)


I.synth[('$hash', 'Write')] = hash_Write
I.synth[('$hash', 'Sum')] = hash_Sum
I.synth[('$hash', 'Reset')] = hash_Reset
I.synth[('$hash', 'Size')] = hash_Size


@I.reg('crypto/sha256.Sum256')
def sha256_sum256(it, st, args, fname):
    vals = it.slice_values(st, args[0], 'sha256 input') if args[0].obj is not None else []
    return ret(st, tuple(hash_apply(it, st, 'sha256', vals)))


@I.reg('crypto/sha512.Sum512')
def sha512_sum512(it, st, args, fname):
    vals = it.slice_values(st, args[0], 'sha512 input') if args[0].obj is not None else []
    return ret(st, tuple(hash_apply(it, st, 'sha512', vals)))


# ------------------------------------------------------------------ randomness: fresh nondet bytes

def rand_read(it, st, args, fname):
    from intrinsics import nd_bv
    p = args[-1] if isinstance(args[-1], Slice) else args[0]
    n = it.concrete_int(st, p.len, 'rand.Read length')
    for i in range(n):
        it.slice_set(st, p, i, nd_bv(st, 'rand', 8))
    return ret(st, (n, None))


I.reg('crypto/rand.Read', rand_read)
I.reg('math/rand.Read', rand_read)
I.reg('(*crypto/rand.reader).Read', rand_read)
