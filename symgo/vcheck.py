#!/usr/bin/env python3
# vcheck: driver for one property check.
#   vcheck run <ID> [--tier quick|thorough] [--only substr] [--jobs N] [--keep]
#   vcheck replay <replay.json>
# exit 0: every VC unsat within the stated bounds (known findings printed as KNOWN-FINDING)
# exit 1: replayed violation(s): lines "VIOLATION property=<ID> replay=<path>"
# exit 2: inconclusive (timeout / unwinding bound / unsupported construct / solver disagreement / vacuity)
# exit 3: encoder mismatch (counterexample or witness does not reproduce natively)
import sys, os, json, time, importlib.util, subprocess, shutil, tempfile, re, multiprocessing, hashlib, traceback

HERE = os.path.dirname(os.path.abspath(__file__))
VERIF = os.path.dirname(HERE)
sys.path.insert(0, HERE)
import build

REPO = build.REPO


def load_check(cid):
    p = f'{VERIF}/checks/{cid}.py'
    spec = importlib.util.spec_from_file_location('check_' + cid, p)
    m = importlib.util.module_from_spec(spec)
    spec.loader.exec_module(m)
    return m.CHECK


def _worker(job):
    import runner
    dump, entry, args, opts = job
    t = time.time()
    r = runner.run_instance(dump, entry, args, opts)
    r['job_wall'] = time.time() - t
    return r


def base_label(lab):
    # strip the instance arguments: "VH_x(1,2)/rest" -> "VH_x/rest"
    return re.sub(r'^([^/(]+)\([^)]*\)', r'\1', lab)


def read_known(cid):
    known, fixed = [], []
    p = f'{VERIF}/known_findings.txt'
    if os.path.exists(p):
        for line in open(p):
            line = line.strip()
            if not line or line.startswith('#'):
                continue
            m = re.match(r'known:\s+property=(\S+)\s+vc=(\S+)\s+(.*)$', line)
            if m and m.group(1) == cid:
                known.append((m.group(2), m.group(3)))
            m = re.match(r'fixed:\s+property=(\S+)\s+(\S+)\s+(.*)$', line)
            if m and m.group(1) == cid:
                fixed.append((m.group(2), m.group(3)))
    return known, fixed


GOCONV = {'int': 'int(a[%d])', 'int64': 'a[%d]', 'uint64': 'uint64(a[%d])', 'uint': 'uint(a[%d])', 'bool': 'a[%d] != 0',
          'byte': 'byte(a[%d])', 'uint8': 'uint8(a[%d])', 'uint32': 'uint32(a[%d])', 'int32': 'int32(a[%d])', 'uint16': 'uint16(a[%d])'}


def gen_replay_test(pkgdir, funcs, pkgname):
    cases = []
    for name, params in funcs:
        call = ', '.join(GOCONV[t] % i for i, (_, t) in enumerate(params))
        cases.append(f'\tcase "{name}":\n\t\treturn func() {{ {name}({call}) }}')
    return f'''//go:build verif

package {pkgname}

import (
	"encoding/json"
	"fmt"
	"os"
	"strconv"
	"testing"

	zz "github.com/tonkeeper/tongo/zzvrt"
)

func vhDispatch(name string, a []int64) func() {{
	switch name {{
{chr(10).join(cases)}
	}}
	return nil
}}

func TestVReplay(t *testing.T) {{
	data, err := os.ReadFile(os.Getenv("VERIF_CASES"))
	if err != nil {{
		t.Fatal(err)
	}}
	var cases []zz.Case
	if err := json.Unmarshal(data, &cases); err != nil {{
		t.Fatal(err)
	}}
	out, err := os.OpenFile(os.Getenv("VERIF_OUT"), os.O_APPEND|os.O_CREATE|os.O_WRONLY, 0644)
	if err != nil {{
		t.Fatal(err)
	}}
	defer out.Close()
	start, _ := strconv.Atoi(os.Getenv("VERIF_START"))
	for i := start; i < len(cases); i++ {{
		fmt.Fprintf(out, "{{\\"start\\":%d}}\\n", i)
		out.Sync()
		f := vhDispatch(cases[i].Harness, cases[i].Args)
		if f == nil {{
			t.Fatalf("unknown harness %s", cases[i].Harness)
		}}
		r := zz.Run(&cases[i], f)
		b, _ := json.Marshal(map[string]any{{"index": i, "result": r}})
		out.Write(append(b, '\\n'))
		out.Sync()
	}}
}}
'''


def go_package_name(pkgdir):
    d = REPO if pkgdir == '.' else f'{REPO}/{pkgdir}'
    for f in sorted(os.listdir(d)):
        if f.endswith('.go') and not f.endswith('_test.go'):
            for line in open(f'{d}/{f}'):
                m = re.match(r'package (\w+)', line)
                if m:
                    return m.group(1)
    raise RuntimeError('no package name for ' + pkgdir)


class Native:
    """native replays of harness functions (go test with overlay)"""

    def __init__(self, work, pkgs):
        self.work = work
        self.pkgs = pkgs
        self.funcs = build.harness_funcs(pkgs)
        seen = {}
        for p, fs in self.funcs.items():
            for n, _ in fs:
                if n in seen:
                    raise RuntimeError(f'harness name {n} defined in both {seen[n]} and {p}')
                seen[n] = p
        self.ov = build.harness_overlay(pkgs, native=True)
        for p in pkgs:
            src = gen_replay_test(p, self.funcs[p], go_package_name(p))
            tp = f'{work}/replay_{p.replace("/", "_")}_test.go'
            open(tp, 'w').write(src)
            self.ov[REPO + ('/' if p == '.' else f'/{p}/') + 'zz_verif_replay_test.go'] = tp
        self.ovp = f'{work}/overlay_native.json'
        json.dump({'Replace': self.ov}, open(self.ovp, 'w'))
        self.runs = 0
        self.wall = 0.0

    def pkg_of(self, harness):
        for p, fs in self.funcs.items():
            if any(n == harness for n, _ in fs):
                return p
        raise RuntimeError('harness not found: ' + harness)

    def run(self, cases, timeout=120):
        """cases: list of {harness,args,nondet}; returns list of result dicts (or {'crash': text})"""
        results = [None] * len(cases)
        by_pkg = {}
        for i, c in enumerate(cases):
            by_pkg.setdefault(self.pkg_of(c['harness']), []).append(i)
        for p, idxs in by_pkg.items():
            sub = [{'harness': cases[i]['harness'], 'args': [int(x) for x in cases[i].get('args', [])],
                    'nondet': {k: str(v) for k, v in cases[i]['nondet'].items()}} for i in idxs]
            cp = f'{self.work}/cases_{self.runs}.json'
            op = f'{self.work}/out_{self.runs}.jsonl'
            json.dump(sub, open(cp, 'w'))
            start = 0
            while start < len(sub):
                self.runs += 1
                env = dict(build.GOENV, VERIF_CASES=cp, VERIF_OUT=op, VERIF_START=str(start))
                t = time.time()
                pr = subprocess.run(['go', 'test', '-tags', 'verif', '-vet=off', '-count=1', '-overlay', self.ovp, '-run', '^TestVReplay$',
                                     '-timeout', f'{timeout}s', './' + p if p != '.' else '.'], cwd=REPO, env=env, capture_output=True, text=True)
                self.wall += time.time() - t
                done = -1
                started = -1
                if os.path.exists(op):
                    for line in open(op):
                        try:
                            o = json.loads(line)
                        except Exception:
                            continue
                        if 'start' in o:
                            started = o['start']
                        else:
                            results[idxs[o['index']]] = o['result']
                            done = o['index']
                if started > done:
                    # the test binary died while running case `started`
                    results[idxs[started]] = {'crash': (pr.stdout + pr.stderr)[-1500:]}
                    start = started + 1
                    continue
                if done < len(sub) - 1 and started == done:
                    if pr.returncode != 0 and done == -1:
                        raise RuntimeError('native replay build/run failed:\n' + (pr.stdout + pr.stderr)[-3000:])
                    start = done + 1
                    if start >= len(sub):
                        break
                    if pr.returncode != 0:
                        raise RuntimeError('native replay failed:\n' + (pr.stdout + pr.stderr)[-3000:])
                else:
                    break
        return results


def reproduced(vcinfo, label, res):
    """does the native result confirm the violated VC?"""
    if res is None:
        return False, 'no native result'
    if 'crash' in res:
        return True, 'native process died: ' + res['crash'][-300:].replace('\n', ' | ')
    if res.get('assume_failed'):
        return False, 'native run rejected the inputs (assumption failed)'
    kind = label.split('/', 1)[1] if '/' in label else label
    if kind.startswith('assert:'):
        want = kind[len('assert:'):]
        if res.get('assert_failed') == want:
            return True, 'assertion failed natively'
        if res.get('assert_failed'):
            # ground truth: the real code violates a property assertion on these inputs (an earlier one than predicted)
            return True, f"native run violated assertion {res.get('assert_failed')!r} (the engine predicted {want!r})"
        return False, f"native: assert_failed={res.get('assert_failed')!r} panic={res.get('panic')!r}"
    if vcinfo and vcinfo.get('alloc'):
        thr = vcinfo.get('alloc_bytes', 0)
        if not thr:
            return True, 'allocation above the stated limit (modest witness; no native confirmation possible)'
        if res.get('panic') or res.get('alloc_bytes', 0) >= thr > 0:
            return True, f"native allocated {res.get('alloc_bytes')} bytes (threshold {thr}) panic={res.get('panic')!r}"
        return False, f"native allocated {res.get('alloc_bytes')} bytes < {thr}"
    if res.get('panic'):
        return True, 'native panic: ' + res['panic'][:200]
    if res.get('assert_failed'):
        # e.g. a call that blocks in the model (no passing of time) is ended natively by its timer and then
        # fails a property assertion: the real code violates the property on these inputs
        return True, f"native run violated assertion {res.get('assert_failed')!r} (the engine predicted {kind!r})"
    return False, f"native run completed: assert_failed={res.get('assert_failed')!r}"


def crosscheck(work, exports, limit):
    """re-decide exported VCs with z3 4.8.12 and cvc5 (in parallel, 30 s each)"""
    from concurrent.futures import ThreadPoolExecutor
    out = {'checked': 0, 'agree': 0, 'disagree': [], 'skipped': 0}
    tasks = []
    for i, (label, verdict, smt) in enumerate(exports[:limit]):
        p = f'{work}/x_{i}.smt2'
        open(p, 'w').write('(set-logic ALL)\n' + smt)
        tasks.append((label, verdict, 'z3-4.8.12', ['/usr/bin/z3', '-T:30', p]))
        tasks.append((label, verdict, 'cvc5', ['cvc5', '--tlimit=30000', p]))

    def run(t):
        label, verdict, tool, cmd = t
        try:
            pr = subprocess.run(cmd, capture_output=True, text=True, timeout=45)
            txt = pr.stdout.strip().split('\n')
        except subprocess.TimeoutExpired:
            return (t, None)
        if any('(error' in l for l in txt) or not txt or txt[0] not in ('sat', 'unsat'):
            return (t, None)
        return (t, txt[0])
    with ThreadPoolExecutor(max_workers=12) as ex:
        for (label, verdict, tool, cmd), res in ex.map(run, tasks):
            if res is None:
                out['skipped'] += 1
                continue
            out['checked'] += 1
            if res == verdict:
                out['agree'] += 1
            else:
                out['disagree'].append({'label': label, 'tool': tool, 'z3py': verdict, 'other': res})
    return out


def main():
    if len(sys.argv) < 3:
        print(__doc__ or 'usage: vcheck run <ID> [--tier quick|thorough]')
        sys.exit(2)
    cmd, cid = sys.argv[1], sys.argv[2]
    if cmd == 'replay':
        return replay_file(cid)
    tier = os.environ.get('VERIF_TIER', 'quick')
    only = None
    jobs = min(16, os.cpu_count() or 4)
    keep = False
    a = sys.argv[3:]
    while a:
        x = a.pop(0)
        if x == '--tier':
            tier = a.pop(0)
        elif x == '--only':
            only = a.pop(0)
        elif x == '--jobs':
            jobs = int(a.pop(0))
        elif x == '--keep':
            keep = True
    if tier not in ('quick', 'thorough'):
        tier = 'quick'
    seed = int(os.environ.get('VERIF_SEED', '0') or 0)
    t0 = time.time()
    chk = load_check(cid)
    os.makedirs(f'{VERIF}/.work', exist_ok=True)
    work = tempfile.mkdtemp(prefix=f'{cid}-', dir=f'{VERIF}/.work')
    rc = 2
    try:
        rc = run_check(cid, chk, tier, seed, work, only, jobs, t0)
    except Exception:
        traceback.print_exc()
        print(f'INCONCLUSIVE property={cid} internal error')
        rc = 2
    finally:
        if not keep:
            shutil.rmtree(work, ignore_errors=True)
    sys.exit(rc)


def run_check(cid, chk, tier, seed, work, only, jobs, t0):
    pkgs = chk['pkgs']
    build.run_generators(chk.get('gen'), work)
    insts = chk['instances'](tier)
    if only:
        insts = [i for i in insts if only in i[1] + '(' + ','.join(str(x) for x in i[2]) + ')']
    entries = sorted(set((p, f) for p, f, _, _ in insts))
    dump = f'{work}/dump.json'
    tb = time.time()
    info = build.build_dump(dump, pkgs, entries, chk.get('init_pkgs', ()), nostop=chk.get('nostop', ()))
    build_s = time.time() - tb
    print(f'[{cid}] {info}; {len(insts)} instances; tier={tier}; build {build_s:.1f}s', flush=True)
    jobsl = []
    for p, f, args, opts in insts:
        o = dict(chk.get('opts', {}))
        o.update(opts or {})
        o['seed'] = seed
        jobsl.append((dump, f'{build.importpath(p)}.{f}', list(args), o))
    # longest first
    jobsl.sort(key=lambda j: -j[3].get('weight', 1))
    ctxmp = multiprocessing.get_context('fork')
    with ctxmp.Pool(min(jobs, max(1, len(jobsl))), maxtasksperchild=8) as pool:
        results = pool.map(_worker, jobsl, chunksize=1)
    solve_s = time.time() - tb - build_s

    inconclusive = []
    agg = {}          # base label -> dict
    covers = {}       # harness/label -> witness (any instance)
    witnesses = []
    stats = {'instrs': 0, 'forks': 0, 'merges': 0, 'states': 0, 'solver_calls': 0, 'solver_s': 0.0, 'trivial_vcs': 0}
    max_vc_ms = 0
    funcs, intr, assumptions, exports = set(), set(), set(), []
    for r in results:
        if r['status'] != 'ok':
            inconclusive.append(f"{r.get('harness', r['entry'])}: {r['reason'][:2000]}")
        for k in stats:
            stats[k] += (r.get('stats') or {}).get(k, 0)
        max_vc_ms = max(max_vc_ms, (r.get('stats') or {}).get('max_vc_ms', 0))
        funcs |= set(r.get('funcs') or [])
        intr |= set(r.get('intrinsics') or [])
        assumptions |= set(r.get('assumptions') or [])
        exports += r.get('smt_export') or []
        hbase = r['entry'].rsplit('.', 1)[1]
        for lab, v in (r.get('vcs') or {}).items():
            b = base_label(lab)
            a = agg.setdefault(b, {'n': 0, 'solved': 0, 'ms': 0, 'status': 'unsat', 'cases': []})
            a['n'] += v['n']
            a['solved'] += v['solved']
            a['ms'] += v['ms']
            if v['status'] == 'sat':
                a['status'] = 'sat'
                a['cases'].append({'label': lab, 'harness': hbase, 'args': r['args'], 'model': v['model'], 'info': v.get('info')})
            elif v['status'] == 'unknown' and a['status'] == 'unsat':
                a['status'] = 'unknown'
                a.setdefault('unknown_at', lab)
        had_sat = any(v['status'] == 'sat' for v in (r.get('vcs') or {}).values())
        for lab, w in (r.get('covers') or {}).items():
            key = hbase + '/' + lab
            if w and had_sat:
                # witnesses found after a violated VC was assumed away are not used for validation
                covers.setdefault(key, None)
                covers[key] = covers[key] or {'harness': hbase, 'args': r['args'], 'nondet': w['nondet'], 'observes': w['observes'], 'skip': True}
            elif w:
                covers[key] = {'harness': hbase, 'args': r['args'], 'nondet': w['nondet'], 'observes': w['observes']}
            else:
                covers.setdefault(key, None)
        for w in ([] if had_sat else (r.get('witnesses') or [])):
            witnesses.append({'harness': hbase, 'args': r['args'], 'nondet': w['nondet'], 'observes': w['observes']})

    vacuous = [k for k, v in covers.items() if v is None]
    unknowns = [k for k, v in agg.items() if v['status'] == 'unknown']
    sat = {k: v for k, v in agg.items() if v['status'] == 'sat'}

    # ---------------- native runs: replays of counterexamples + differential validation of witnesses
    nat = Native(work, pkgs)
    cases = []
    meta = []
    for lab, v in sat.items():
        c = v['cases'][0]
        cases.append({'harness': c['harness'], 'args': c['args'], 'nondet': c['model']['nondet']})
        meta.append(('viol', lab, c))
    import random
    rnd = random.Random(seed)
    wl = list(covers.items())
    wsel = [(k, w) for k, w in wl if w and not w.get('skip')]
    nwit = chk.get('witness_runs', {'quick': 25, 'thorough': 200})[tier]
    rnd.shuffle(witnesses)
    for k, w in wsel[:nwit]:
        cases.append(w)
        meta.append(('cover', k, w))
    for w in witnesses[:nwit]:
        cases.append(w)
        meta.append(('witness', w['harness'], w))
    natres = nat.run(cases) if cases else []
    mismatches = []
    validated = 0
    violations = []
    os.makedirs(f'{VERIF}/replays', exist_ok=True)
    for (kind, lab, c), res in zip(meta, natres):
        if kind == 'viol':
            ok, why = reproduced(c.get('info'), c['label'], res)
            if ok:
                h = hashlib.sha1(lab.encode()).hexdigest()[:10]
                rp = f'{VERIF}/replays/{cid}-{h}.json'
                json.dump({'property': cid, 'vc_label': lab, 'instance_label': c['label'], 'harness': c['harness'], 'args': c['args'],
                           'nondet': {k: str(x) for k, x in c['model']['nondet'].items()}, 'info': c.get('info'),
                           'native': why, 'pkgs': pkgs}, open(rp, 'w'), indent=1)
                violations.append((lab, rp, why))
                validated += 1
            else:
                mismatches.append(f'counterexample for {lab} does not reproduce natively: {why}')
        else:
            if res is None or 'crash' in res:
                mismatches.append(f'{kind} witness of {lab}: native run died: {(res or {}).get("crash", "")[-300:]}')
                continue
            if res.get('assume_failed') or res.get('assert_failed') or res.get('panic'):
                mismatches.append(f"{kind} witness of {lab} ({c['harness']}{c['args']}): native run: assume_failed={res.get('assume_failed')} "
                                  f"assert_failed={res.get('assert_failed')!r} panic={res.get('panic')!r} nondet={json.dumps(c['nondet'])[:600]}")
                continue
            exp = [[l, fmt_obs(v)] for l, v in c['observes']]
            got = res.get('observes') or []
            if kind == 'witness' and exp != got:
                mismatches.append(f"witness of {lab} ({c['harness']}{c['args']}): observes differ: model {exp[:6]} native {got[:6]} nondet={json.dumps(c['nondet'])[:600]}")
                continue
            if kind == 'cover' and got[:len(exp)] != exp:
                mismatches.append(f"cover witness {lab}: observes differ: model {exp[:6]} native {got[:6]}")
                continue
            validated += 1

    # ---------------- cross-check exported VCs with other solvers
    xc = crosscheck(work, exports, chk.get('crosscheck', {'quick': 6, 'thorough': 40})[tier])

    # ---------------- verdict
    known, fixed = read_known(cid)
    rc = 0
    new_viol = []
    for lab, rp, why in violations:
        kf = [d for (l, d) in known if l == lab]
        if kf:
            print(f'KNOWN-FINDING: property={cid} {lab} {kf[0]}')
        else:
            new_viol.append((lab, rp, why))
    for lab, rp, why in new_viol:
        print(f'VIOLATION property={cid} replay={rp}')
        print(f'   vc={lab}  ({why})')
        rc = 1
    if mismatches:
        for m in mismatches:
            print('ENCODER-MISMATCH ' + m)
        if rc == 0:
            rc = 3
    if rc == 0 and (inconclusive or unknowns or vacuous or xc['disagree']):
        for m in inconclusive:
            print(f'INCONCLUSIVE property={cid} {m}')
        for m in unknowns:
            print(f'INCONCLUSIVE property={cid} solver returned unknown/timeout for {agg[m].get("unknown_at", m)}')
        for m in vacuous:
            print(f'INCONCLUSIVE property={cid} vacuity: cover {m} not reachable in any instance')
        for m in xc['disagree']:
            print(f'INCONCLUSIVE property={cid} solver disagreement {m}')
        rc = 2
    elif inconclusive or unknowns or vacuous:
        for m in inconclusive + unknowns + vacuous:
            print(f'note: also inconclusive: {m[:300]}')

    nvc = len(agg)
    discharged = sum(1 for v in agg.values() if v['status'] == 'unsat')
    wall = time.time() - t0
    samples = []
    for lab, v in list(agg.items())[:400]:
        if v['solved'] and len(samples) < 8:
            samples.append({'vc': lab, 'verdict': v['status'], 'solver_queries': v['solved'], 'ms': v['ms']})
    for k, w in list(covers.items())[:3]:
        if w:
            samples.append({'cover': k, 'instance_args': w['args'], 'witness_inputs': dict(list(w['nondet'].items())[:12])})
    for lab, rp, why in violations[:3]:
        samples.append({'violated_vc': lab, 'replay': rp, 'native': why[:200]})
    ev = {
        'property_id': cid, 'tier': tier, 'seed': seed, 'level': 'model_checking', 'wall_s': round(wall, 2),
        'violations': len(new_viol),
        'coverage': {
            'states': max(1, stats['states']), 'transitions': max(1, stats['instrs']),
            'traces_validated_against_impl': validated,
            'samples': samples,
            'obligations': nvc + stats['trivial_vcs'], 'discharged': discharged + stats['trivial_vcs'],
            'vc_labels': nvc, 'vc_labels_unsat': discharged, 'vc_solver_queries': sum(v['solved'] for v in agg.values()),
            'vcs_decided_by_constant_folding': stats['trivial_vcs'],
            'instances': len(results), 'instances_inconclusive': len(inconclusive),
            'covers_reached': sum(1 for v in covers.values() if v), 'covers_total': len(covers),
            'known_findings_reported': len(violations) - len(new_viol),
            'functions_encoded': sorted(build_short(f) for f in funcs if not build_short(f).startswith('zzvrt.')),
            'bounds': chk.get('bounds', {}).get(tier, chk.get('bounds', {})),
            'stubs_and_intrinsics_used': sorted(intr),
            'solver': {'engine': 'z3 ' + z3ver(), 'solver_s_total': round(stats['solver_s'], 2), 'max_vc_ms': max_vc_ms,
                       'solver_calls_incl_feasibility': stats['solver_calls'], 'crosscheck': xc},
            'forks': stats['forks'], 'merges': stats['merges'],
            'native_runs': nat.runs, 'native_wall_s': round(nat.wall, 1), 'build_s': round(build_s, 1), 'solve_wall_s': round(solve_s, 1),
            'outside_claim': chk.get('outside_claim', []), 'lifted_by': chk.get('lifted_by', ''),
            'inconclusive': (inconclusive + unknowns + vacuous)[:20], 'encoder_mismatches': mismatches[:10],
            'exhaustive': False,
        },
        'assumptions': sorted(assumptions) + chk.get('assumptions', []),
    }
    os.makedirs(f'{VERIF}/evidence', exist_ok=True)
    json.dump(ev, open(f'{VERIF}/evidence/{cid}.json', 'w'), indent=1)
    print(f'[{cid}] tier={tier} instances={len(results)} vc_labels={nvc} unsat={discharged} sat={len(sat)} unknown={len(unknowns)} '
          f'folded={stats["trivial_vcs"]} covers={sum(1 for v in covers.values() if v)}/{len(covers)} native_validated={validated} '
          f'xcheck={xc["agree"]}/{xc["checked"]} solver={stats["solver_s"]:.1f}s wall={wall:.1f}s exit={rc}', flush=True)
    return rc


def fmt_obs(v):
    if isinstance(v, list):
        return ''.join('%02x' % x for x in v)
    return str(v)


def build_short(f):
    return f.replace('github.com/tonkeeper/tongo/', '')


def z3ver():
    import z3
    return z3.get_version_string()


def replay_file(path):
    d = json.load(open(path))
    work = tempfile.mkdtemp(prefix='replay-', dir=f'{VERIF}/.work') if os.path.isdir(f'{VERIF}/.work') else tempfile.mkdtemp()
    try:
        nat = Native(work, d['pkgs'])
        res = nat.run([{'harness': d['harness'], 'args': d['args'], 'nondet': d['nondet']}])[0]
        ok, why = reproduced(d.get('info'), d['instance_label'], res)
        print(json.dumps(res, indent=1)[:3000])
        print('REPRODUCED' if ok else 'NOT REPRODUCED', '-', why)
        sys.exit(1 if ok else 0)
    finally:
        shutil.rmtree(work, ignore_errors=True)


if __name__ == '__main__':
    main()
