# run one harness instance on a dump; returns a picklable result dict
import sys, os, time, traceback, threading, json
sys.path.insert(0, os.path.dirname(os.path.abspath(__file__)))
import z3
import engine as E
from engine import *
import interp as IN
from intrinsics import I
import intrinsics_lib  # noqa: F401  (registers more models)
import intrinsics_reflect  # noqa: F401
import intrinsics_big  # noqa: F401

_loaded = [None]


def ensure_dump(path):
    if _loaded[0] != path:
        E.load_dump(path)
        _loaded[0] = path


def run_instance(dump, entry, args=(), opts=None):
    """entry: full function name; args: python ints/bools"""
    res = {}

    def body():
        try:
            res.update(_run(dump, entry, args, opts or {}))
        except BaseException as e:  # noqa
            res.update({'entry': entry, 'args': list(args), 'status': 'error', 'reason': repr(e) + '\n' + traceback.format_exc()})
    threading.stack_size(1024 * 1024 * 1024)
    th = threading.Thread(target=body)
    th.start()
    th.join()
    return res


def _run(dump, entry, args, opts):
    ensure_dump(dump)
    t0 = time.time()
    ctx = IN.Ctx(opts)
    ctx.harness = IN.short(entry).split('.')[-1] + ('(' + ','.join(str(a) for a in args) + ')' if args else '')
    ctx.inited_pkgs = set()
    ctx.in_init = False
    if opts.get('budget_s'):
        ctx.deadline = t0 + opts['budget_s']
    I.used = set()
    if os.environ.get('FIXED'):   # debugging: FIXED='idx#0=1,crc#0=0'
        import intrinsics as _INTR
        _INTR.FIXED.update(dict(kv.split('=') for kv in os.environ['FIXED'].split(',')))
    IN._UF_MEMO.clear()
    it = IN.Interp(ctx, I)
    st0 = State()
    status, reason = 'ok', ''
    try:
        ctx.in_init = True
        for fn in E.D.get('inits') or []:
            pk = E.FUNCS[fn]['pkg']
            r = it.call(st0, fn, [])
            if len(r) != 1:
                raise Unsupported('package initialiser forks: ' + fn)
            st0 = r[0][0]
            ctx.inited_pkgs.add(pk)
        ctx.in_init = False
        init_instrs = ctx.instrs
        ctx.funcs = set()
        f = E.FUNCS[entry]
        a = []
        for v, t in zip(args, f['ptypes'] or []):
            x = E.ty(t)
            if x['kind'] == 'int':
                a.append(mask(int(v), x['bits']))
            elif x['kind'] == 'bool':
                a.append(bool(v))
            else:
                raise Unsupported('entry parameter of kind ' + x['kind'])
        finals = it.call(st0, entry, a)
        for i, (fs, _) in enumerate(finals[:4]):
            ctx.witnesses += it.diverse_models(fs, opts.get('seed', 0) * 1000 + i, opts.get('witnesses', 2))
        nfinal = len(finals)
    except Unsupported as e:
        status, reason = 'inconclusive', 'unsupported: ' + str(e)
        nfinal = 0
        if opts.get('verbose'):
            traceback.print_exc()
    except Inconclusive as e:
        status, reason = 'inconclusive', str(e)
        nfinal = 0
    vcs = {}
    for k, v in ctx.vcs.items():
        vcs[k] = {kk: vv for kk, vv in v.items()}
    out = {
        'entry': entry, 'args': list(args), 'harness': ctx.harness, 'status': status, 'reason': reason,
        'vcs': vcs, 'covers': ctx.covers, 'witnesses': ctx.witnesses[:8], 'final_states': nfinal,
        'stats': {'instrs': ctx.instrs, 'forks': ctx.forks, 'merges': ctx.merges, 'states': ctx.states,
                  'solver_calls': ctx.solver_calls, 'solver_s': round(ctx.solver_time, 3), 'max_vc_ms': ctx.max_vc_ms, 'trivial_vcs': ctx.trivial_vcs,
                  'wall_s': round(time.time() - t0, 3)},
        'funcs': sorted(ctx.funcs), 'intrinsics': sorted(I.used), 'assumptions': sorted(ctx.assumptions),
        'smt_export': ctx.smt_export, 'opts': {k: v for k, v in opts.items()},
    }
    return out


def main():
    dump = sys.argv[1]
    entry = sys.argv[2]
    args = [int(x) for x in sys.argv[3:]]
    opts = {'verbose': True}
    if os.environ.get('UNWIND'):
        opts['unwind'] = int(os.environ['UNWIND'])
    if os.environ.get('FEASAX'):
        opts['feas_axioms'] = True
    if os.environ.get('CCLOCK'):
        opts['concrete_clock'] = True
    if os.environ.get('HASHINJ'):
        opts['hash_injective'] = True
    if os.environ.get('ALLOC'):
        opts['alloc_limit'] = int(os.environ['ALLOC'])
    r = run_instance(dump, entry, args, opts)
    r.pop('smt_export', None)
    fn = r.pop('funcs', [])
    print(json.dumps({k: v for k, v in r.items() if k not in ('vcs', 'covers', 'witnesses')}, indent=1))
    print('funcs:', len(fn))
    bad = {k: v for k, v in (r.get('vcs') or {}).items() if v['status'] != 'unsat'}
    print('VCs:', len(r.get('vcs') or {}), 'non-unsat:', len(bad))
    for k, v in bad.items():
        print('  ', k, v['status'], json.dumps(v['model'])[:300])
    for k, v in (r.get('covers') or {}).items():
        print('  cover', k, 'REACHED' if v else 'UNREACHED')


if __name__ == '__main__':
    main()
