# Intrinsic models of library functions (DESIGN section 4).  Every model here is part of the
# trusted base of the checks that reach it; the runner lists the ones actually used.
import z3
import engine as E
from engine import *

ZZ = 'github.com/tonkeeper/tongo/zzvrt.'


class Intrinsics:
    def __init__(s):
        s.exact = {}
        s.prefix = []
        s.used = set()
        s.synth = {}

    def reg(s, name, fn=None):
        def deco(f):
            s.exact[name] = f
            return f
        if fn is not None:
            s.exact[name] = fn
            return fn
        return deco

    def regp(s, pfx):
        def deco(f):
            s.prefix.append((pfx, f))
            return f
        return deco

    def lookup(s, fname):
        h = s.exact.get(fname)
        if h is None:
            for p, f in s.prefix:
                if fname.startswith(p):
                    h = f
                    break
        if h is not None:
            s.used.add(fname)
        return h

    def synthetic_method(s, dyn, name):
        return s.synth.get((dyn, name))


I = Intrinsics()


def ret(st, v=None):
    return [(st, v)]


# ------------------------------------------------------------------ harness primitives

def nd_name(st, base):
    k = st.nd.get(base, 0)
    st.nd[base] = k + 1
    return f'{base}#{k}'


FIXED = {}   # debugging aid: name#k -> concrete value (engine-side replay of a model)


def nd_bv(st, base, bits):
    nm = nd_name(st, base)
    if nm in FIXED:
        return int(FIXED[nm]) & ((1 << bits) - 1)
    v = z3.BitVec(nm, bits)
    st.ndvals[nm] = v
    return v


def py_str(x):
    if not x.concrete():
        raise Unsupported('symbolic label string')
    return x.py()


@I.regp(ZZ)
def zz(it, st, args, fname):
    name = fname[len(ZZ):]
    if name == 'NondetInt' or name == 'NondetU64' or name == 'NondetI64':
        return ret(st, nd_bv(st, py_str(args[0]), 64))
    if name == 'NondetU32' or name == 'NondetI32':
        return ret(st, nd_bv(st, py_str(args[0]), 32))
    if name == 'NondetU16':
        return ret(st, nd_bv(st, py_str(args[0]), 16))
    if name == 'NondetByte':
        return ret(st, nd_bv(st, py_str(args[0]), 8))
    if name == 'NondetBool':
        nm = nd_name(st, py_str(args[0]))
        if nm in FIXED:
            return ret(st, bool(int(FIXED[nm])))
        v = z3.Bool(nm)
        st.ndvals[nm] = v
        return ret(st, v)
    if name == 'NondetBytes':
        n = it.concrete_int(st, args[1], 'NondetBytes length')
        base = py_str(args[0])
        return ret(st, it.make_slice(st, 'uint8', [nd_bv(st, base, 8) for _ in range(n)]))
    if name == 'Assume':
        c = to_bool(args[0])
        if c is False:
            raise PathEnd()
        if c is not True:
            st.pc.append(c)
            if not it.feasible(st.pc, None):
                raise PathEnd()
        return ret(st)
    if name == 'Assert':
        it.vc(st, args[1], 'assert:' + py_str(args[0]), {'assert': py_str(args[0])})
        return ret(st)
    if name == 'Cover':
        lab = py_str(args[0])
        c = to_bool(args[1])
        cv = it.ctx.covers
        if cv.get(lab) is None:
            cv.setdefault(lab, None)
            if c is not False:
                m = it.model_of(st, None if c is True else c)
                if m is not None and m != 'unknown':
                    cv[lab] = m
        return ret(st)
    if name.startswith('Observe'):
        lab = py_str(args[0])
        v = args[1]
        if isinstance(v, Slice):
            v = tuple(it.slice_values(st, v, 'observed bytes')) if v.obj is not None else ()
        t = {'ObserveInt': 'int', 'ObserveU64': 'uint64', 'ObserveBool': 'bool', 'ObserveBytes': 'uint8'}[name]
        st.observes = st.observes + ((lab, v, t),)
        return ret(st)
    if name == 'AllocLimit':
        st.alloc_limit = it.concrete_int(st, args[0], 'alloc limit')
        return ret(st)
    if name == 'Implies':
        return ret(st, Or(Not(args[0]), args[1]))
    if name == 'And':
        return ret(st, And(args[0], args[1]))
    if name == 'Or':
        return ret(st, Or(args[0], args[1]))
    if name == 'IteU64' or name == 'IteInt':
        return ret(st, ite_bv(args[0], args[1], args[2], 64))
    if name == 'Symbolic':
        return ret(st, True)
    raise Unsupported('zzvrt.' + name)


# ------------------------------------------------------------------ sync (sequential model)

@I.regp('(*sync.Mutex).')
@I.regp('(*sync.RWMutex).')
def mutex(it, st, args, fname):
    m = fname.rsplit('.', 1)[1]
    p = args[0]
    cur = it.load(st, p)
    # the struct is opaque to us: keep a lock depth in a side table keyed by place
    key = ('LOCK', p.obj, tuple(x if not is_sym(x) else str(x) for x in p.path))
    depth = st.heap.get(key, 0)
    if m in ('Lock', 'RLock'):
        if m == 'Lock' and depth != 0:
            it.violated(st, 'sync:self-deadlock:' + m)
        if m == 'RLock' and depth < 0:
            it.violated(st, 'sync:self-deadlock:' + m)
        st.heap[key] = -1 if m == 'Lock' else depth + 1
    elif m in ('Unlock', 'RUnlock'):
        if (m == 'Unlock' and depth != -1) or (m == 'RUnlock' and depth <= 0):
            it.violated(st, 'sync:unlock-of-unlocked:' + m)
        st.heap[key] = 0 if m == 'Unlock' else depth - 1
    elif m in ('TryLock', 'TryRLock'):
        raise Unsupported(fname)
    return ret(st)


@I.regp('(*sync.Once).')
def once(it, st, args, fname):
    raise Unsupported(fname)


@I.regp('(*sync/atomic.')
@I.regp('sync/atomic.')
def atomic(it, st, args, fname):
    m = fname.rsplit('.', 1)[1]
    p = args[0]
    if fname.startswith('(*sync/atomic.'):
        # atomic.Int32/Int64/... struct: value is field index of 'v'
        tname = fname[len('(*sync/atomic.'):].split(')')[0]
        t = E.ty('sync/atomic.' + tname)
        idx = [i for i, f in enumerate(t['fields']) if f['name'] == 'v'][0]
        bits = E.ty(t['fields'][idx]['type']).get('bits', 64)
        q = Ptr(p.obj, p.path + (idx,))
    else:
        q = p
        bits = 32 if m.endswith('32') else 64
    if m.startswith('Load'):
        return ret(st, it.load(st, q))
    if m.startswith('Store'):
        it.store(st, q, args[1])
        return ret(st)
    if m.startswith('Add'):
        v = it.load(st, q)
        if not is_sym(v) and not is_sym(args[1]):
            nv = mask(v + args[1], bits)
        else:
            nv = bv(v, bits) + bv(args[1], bits)
        it.store(st, q, nv)
        return ret(st, nv)
    raise Unsupported(fname)


# ------------------------------------------------------------------ math/bits

def _bits_fn(it, st, args, fname):
    name = fname.split('.')[-1]
    w = 64
    for cand in (8, 16, 32, 64):
        if name.endswith(str(cand)):
            w = cand
    x = args[0]
    base = name.rstrip('0123456789')
    if not is_sym(x):
        if base == 'TrailingZeros':
            return ret(st, w if x == 0 else (x & -x).bit_length() - 1)
        if base == 'LeadingZeros':
            return ret(st, w - x.bit_length())
        if base == 'OnesCount':
            return ret(st, bin(x).count('1'))
        if base == 'Len':
            return ret(st, x.bit_length())
        if base == 'Reverse':
            return ret(st, int(bin(x)[2:].zfill(w)[::-1], 2))
        if base == 'ReverseBytes':
            return ret(st, int.from_bytes(x.to_bytes(w // 8, 'big'), 'little'))
    X = bv(x, w)
    if base == 'TrailingZeros':
        r = z3.BitVecVal(w, 64)
        for i in range(w - 1, -1, -1):
            r = z3.If(z3.Extract(i, i, X) == 1, z3.BitVecVal(i, 64), r)
    elif base == 'LeadingZeros':
        r = z3.BitVecVal(w, 64)
        for i in range(w):
            r = z3.If(z3.Extract(i, i, X) == 1, z3.BitVecVal(w - 1 - i, 64), r)
    elif base == 'Len':
        r = z3.BitVecVal(0, 64)
        for i in range(w):
            r = z3.If(z3.Extract(i, i, X) == 1, z3.BitVecVal(i + 1, 64), r)
    elif base == 'OnesCount':
        r = z3.BitVecVal(0, 64)
        for i in range(w):
            r = r + z3.ZeroExt(63, z3.Extract(i, i, X))
    elif base == 'ReverseBytes':
        r = z3.Concat(*[z3.Extract(8 * i + 7, 8 * i, X) for i in range(w // 8)])
    elif base == 'Reverse':
        r = z3.Concat(*[z3.Extract(i, i, X) for i in range(w)])
    else:
        raise Unsupported(fname)
    return ret(st, r)


I.regp('math/bits.')(_bits_fn)


# ------------------------------------------------------------------ errors / fmt

@I.reg('fmt.Errorf')
def fmt_errorf(it, st, args, fname):
    fmtv = args[0]
    va = it.slice_values(st, args[1], 'varargs') if args[1].obj is not None else []
    oid = it.new_obj(st, ('FMTERR', fmtv, tuple(va)), ('OPAQUE',))
    return ret(st, Iface('$fmterr', Ptr(oid)))


def fmterr_Error(it, st, args):
    return ret(st, mkstr('error'))


def fmterr_Unwrap(it, st, args):
    o = st.heap[args[0].obj]
    for a in o[2]:
        if isinstance(a, Iface) and it.find_method(a.t, 'Error') is not None:
            return ret(st, a)
    return ret(st, None)


I.synth[('$fmterr', 'Error')] = fmterr_Error
I.synth[('$fmterr', 'Unwrap')] = fmterr_Unwrap


@I.reg('errors.Is')
def errors_is(it, st, args, fname):
    err, target = args

    def walk(e, depth=0):
        if e is None:
            return False
        r = to_bool(eqv(e, target))
        if r is True:
            return True
        if isinstance(e, Iface) and e.t == '$fmterr':
            o = st.heap[e.v.obj]
            for a in o[2]:
                if isinstance(a, Iface) and walk(a, depth + 1) is True:
                    return True
        return False
    return ret(st, walk(err))


@I.reg('errors.As')
def errors_as(it, st, args, fname):
    raise Unsupported(fname)


@I.reg('fmt.Sprintf')
def fmt_sprintf(it, st, args, fname):
    f = py_str(args[0])
    va = it.slice_values(st, args[1], 'varargs') if args[1].obj is not None else []
    # a symbolic %d forks on sign and digit count (bounded): handled by expanding alternatives
    verbs = []
    k_ = 0
    while k_ < len(f):
        if f[k_] == '%':
            k_ += 1
            while k_ < len(f) and f[k_] in '0123456789.+-# ':
                k_ += 1
            if k_ < len(f) and f[k_] != '%':
                verbs.append(f[k_])
        k_ += 1
    for ai_, a_ in enumerate(va):
        v_ = a_.v if isinstance(a_, Iface) else a_
        t_ = a_.t if isinstance(a_, Iface) else None
        if t_ is not None and t_ in E.TYPES and E.ty(t_)['kind'] == 'int' and is_sym(v_):
            if ai_ < len(verbs) and verbs[ai_] in 'xX':
                if E.ty(t_).get('signed'):
                    raise Unsupported('Sprintf %x of a symbolic signed integer')
                alts = hex_alternatives(it, st, v_, E.ty(t_), verbs[ai_])
            else:
                alts = decimal_alternatives(it, st, v_, E.ty(t_))
            res = []
            for cond, val in alts:
                s2 = st.fork()
                s2.pc.append(cond)
                if not it.feasible(s2.pc, None):
                    continue
                va2 = list(va)
                va2[ai_] = Iface('$decimal', Str(val))
                sl = it.make_slice(s2, 'any' if 'any' in E.TYPES else 'interface{}', va2)
                res += fmt_sprintf(it, s2, [args[0], sl], fname)
            it.ctx.states += max(0, len(res) - 1)
            return res
    out = []
    i = 0
    ai = 0
    while i < len(f):
        ch = f[i]
        if ch != '%':
            out += list(ch.encode())
            i += 1
            continue
        j = i + 1
        spec = ''
        while j < len(f) and f[j] in '0123456789.+-# ':
            spec += f[j]
            j += 1
        verb = f[j]
        i = j + 1
        if verb == '%':
            out.append(ord('%'))
            continue
        a = va[ai]
        ai += 1
        v = a.v if isinstance(a, Iface) else a
        t = a.t if isinstance(a, Iface) else None
        if t == '$decimal' and verb in 'dvxX' and spec == '':
            out += list(v.b)
        elif verb in 'sv' and isinstance(v, Str):
            out += list(v.b)
        elif verb in 'sv' and t == '$fmterr':
            o = st.heap[v.obj]
            out += list(o[1].b) if isinstance(o[1], Str) and not o[2] else list(b'error')
        elif verb in 'dv' and t is not None and E.ty(t)['kind'] == 'int' and not is_sym(v):
            tt = E.ty(t)
            n = tosigned(v, tt['bits']) if tt.get('signed') else v
            sfmt = '%' + spec + 'd'
            out += list((sfmt % n).encode())
        elif verb in 'xX' and t is not None and E.ty(t)['kind'] == 'int' and not is_sym(v):
            sfmt = '%' + spec + verb
            out += list((sfmt % v).encode())
        elif verb in 'xX' and isinstance(v, Slice):
            vals = it.slice_values(st, v, 'Sprintf %x bytes')
            hexd = '0123456789abcdef' if verb == 'x' else '0123456789ABCDEF'
            for b in vals:
                out += hex_byte(b, hexd)
        elif verb in 'xX' and isinstance(v, tuple):
            hexd = '0123456789abcdef' if verb == 'x' else '0123456789ABCDEF'
            for b in v:
                out += hex_byte(b, hexd)
        elif verb in 'xX' and isinstance(v, Str):
            hexd = '0123456789abcdef' if verb == 'x' else '0123456789ABCDEF'
            for b in v.b:
                out += hex_byte(b, hexd)
        else:
            raise Unsupported(f'Sprintf %{spec}{verb} of {t} ({"symbolic" if is_sym(v) else type(v).__name__})')
    return ret(st, Str(out))


MAX_DIGITS = 5


def hex_alternatives(it, st, v, tt, verb):
    """[(condition, digit bytes)] for the %x text of an unsigned symbolic integer: one alternative per
    digit count (1..bits/4), complete over the whole domain"""
    bits = tt['bits']
    nd = (bits + 3) // 4
    a = (ord('a') if verb == 'x' else ord('A')) - 10
    alts = []
    for d in range(1, nd + 1):
        lo = 0 if d == 1 else 1 << (4 * (d - 1))
        c = z3.UGE(v, lo)
        if 4 * d < bits:
            c = z3.And(c, z3.ULT(v, 1 << (4 * d)))
        digs = []
        for i in range(d):
            sh = 4 * (d - 1 - i)
            n = z3.ZeroExt(4, z3.Extract(sh + 3, sh, v)) if sh + 3 < bits else z3.ZeroExt(8 - (bits - sh), z3.Extract(bits - 1, sh, v))
            digs.append(z3.simplify(z3.If(z3.ULT(n, 10), n + ord('0'), n + a)))
        alts.append((z3.simplify(c), digs))
    return alts


def decimal_alternatives(it, st, v, tt):
    """[(condition, digit bytes)] covering every value of v with at most MAX_DIGITS decimal digits;
    values with more digits are excluded by a recorded VC-free assumption (callers bound the domain)"""
    bits = tt['bits']
    signed = tt.get('signed', False)
    alts = []
    V = v
    if bits < 32:
        V = z3.SignExt(32 - bits, v) if signed else z3.ZeroExt(32 - bits, v)
        w = 32
    else:
        w = bits
    signs = [(False, V)]
    if signed:
        signs = [(False, V), (True, -V)]
    covered = []
    for neg, M in signs:
        sc = (V < 0) if neg else ((V >= 0) if signed else z3.BoolVal(True))
        for d in range(1, MAX_DIGITS + 1):
            lo = 0 if d == 1 else 10 ** (d - 1)
            hi = 10 ** d
            c = z3.And(sc, z3.UGE(M, lo), z3.ULT(M, hi)) if not (neg and d == 1) else z3.And(sc, z3.UGE(M, 1), z3.ULT(M, hi))
            digs = []
            for i in range(d):
                p = 10 ** (d - 1 - i)
                q = z3.UDiv(M, z3.BitVecVal(p, w)) if p > 1 else M
                digs.append(z3.simplify(z3.Extract(7, 0, z3.URem(q, z3.BitVecVal(10, w)) + 48)))
            alts.append((z3.simplify(c), ([45] if neg else []) + digs))
            covered.append(c)
    it.ctx.assumptions.add(f'decimal text of symbolic integers is modelled for at most {MAX_DIGITS} digits; larger values are outside the explored domain')
    rest = z3.Not(z3.Or(*covered))
    if it.feasible(st.pc, rest):
        it.ctx.concretizations['decimal-digits-bound'] = MAX_DIGITS
        # the remainder of the domain is not explored: make that visible as an (engine-limit) VC
        it.vc(st, z3.Not(rest), 'fmt:%d-of-more-than-5-digits(model limit)', {'engine-limit': True})
    return alts


def hex_byte(b, hexd):
    if not is_sym(b):
        return [ord(hexd[b >> 4]), ord(hexd[b & 15])]
    a = ord(hexd[10]) - 10

    def dig(n):
        return z3.If(z3.ULT(n, 10), n + ord('0'), n + a)
    hi = z3.LShR(b, 4)
    lo = b & 15
    return [dig(hi), dig(lo)]


@I.regp('fmt.Print')
@I.regp('fmt.Fprint')
@I.regp('log.')
@I.regp('log/slog.')
def noop_print(it, st, args, fname):
    return ret(st, None)


# ------------------------------------------------------------------ hash/crc32 (uninterpreted)

@I.reg('hash/crc32.MakeTable')
def crc32_maketable(it, st, args, fname):
    return ret(st, None)


def uf_bytes(it, name, vals, outbits):
    """uninterpreted function over a concrete-length byte list; functional consistency is
    inherent in the UF; all-concrete arguments are NOT evaluated (callers may do so)"""
    n = len(vals)
    key = (name, n)
    f = it.uf.get(key)
    if f is None:
        f = z3.Function(f'{name}_{n}', *([z3.BitVecSort(8)] * n), z3.BitVecSort(outbits)) if n > 0 else z3.BitVec(f'{name}_0', outbits)
        it.uf[key] = f
    if n == 0:
        return f
    # link the UF to the real function on the concrete inputs of the same length evaluated so far
    # (a byte list that is only semantically concrete, e.g. after a merge, must get the same value)
    syms = it.uf.setdefault('SYMAPP', set())
    if key not in syms:
        syms.add(key)
        for cv, val in it.uf.setdefault('CONC', {}).get(key, {}).items():
            it.ctx.axioms.append(f(*[z3.BitVecVal(x, 8) for x in cv]) == z3.BitVecVal(val, outbits))
    return f(*[bv(x, 8) for x in vals])


def uf_concrete(it, name, vals, value, outbits):
    """record that the real function was evaluated on concrete bytes `vals` (result `value`, an int)"""
    n = len(vals)
    if n == 0:
        return
    key = (name, n)
    tab = it.uf.setdefault('CONC', {}).setdefault(key, {})
    cv = tuple(int(x) for x in vals)
    if cv in tab:
        return
    tab[cv] = value
    if key in it.uf.setdefault('SYMAPP', set()):
        f = it.uf[key]
        it.ctx.axioms.append(f(*[z3.BitVecVal(x, 8) for x in cv]) == z3.BitVecVal(value, outbits))


@I.reg('hash/crc32.Checksum')
def crc32_checksum(it, st, args, fname):
    vals = it.slice_values(st, args[0], 'crc32 input')
    if all(not is_sym(x) for x in vals):
        c = crc32c(bytes(vals))
        uf_concrete(it, 'UF_crc32c', vals, c, 32)
        return ret(st, c)
    return ret(st, uf_bytes(it, 'UF_crc32c', vals, 32))


_crc32c_table = None


def crc32c(data):
    global _crc32c_table
    if _crc32c_table is None:
        t = []
        for i in range(256):
            c = i
            for _ in range(8):
                c = (c >> 1) ^ 0x82F63B78 if c & 1 else c >> 1
            t.append(c)
        _crc32c_table = t
    c = 0xFFFFFFFF
    for b in data:
        c = _crc32c_table[(c ^ b) & 0xFF] ^ (c >> 8)
    return c ^ 0xFFFFFFFF


# ------------------------------------------------------------------ misc

@I.reg('math.Ceil')
def math_ceil(it, st, args, fname):
    import math
    return ret(st, float(math.ceil(args[0])))


@I.reg('math.Floor')
def math_floor(it, st, args, fname):
    import math
    return ret(st, float(math.floor(args[0])))


@I.reg('math.Max')
def math_max(it, st, args, fname):
    return ret(st, max(args[0], args[1]))


@I.reg('math.Min')
def math_min(it, st, args, fname):
    return ret(st, min(args[0], args[1]))


@I.reg('math.Log2')
def math_log2(it, st, args, fname):
    import math
    return ret(st, math.log2(args[0]))


@I.reg('math.Pow')
def math_pow(it, st, args, fname):
    return ret(st, float(args[0] ** args[1]))


@I.reg('runtime.GC')
@I.reg('runtime.Gosched')
def rt_noop(it, st, args, fname):
    return ret(st)
