# decimal text of symbolic integers (bounded number of digits)
from engine import *


def format_decimal(it, st, neg, mag, width, base):
    raise Unsupported('decimal text of a symbolic big integer')


def parse_decimal_big(it, st, z, s, base, put):
    if isinstance(s, Str) and s.concrete():
        txt = s.py()
        try:
            v = int(txt, base if base else 10)
        except ValueError:
            return [(st, (None, False))]
        put(it, st, z, v < 0, abs(v))
        return [(st, (z, True))]
    raise Unsupported('big.SetString of symbolic text')
