# C12 — concurrent requests each receive their own answer (sequential kernel only)
def instances(tier):
    L = 'liteclient'
    out = []
    Ps = [0, 36, 37, 38, 40, 41, 44] if tier == 'quick' else [0, 4, 36, 37, 38, 39, 40, 41, 44, 48, 64]
    for n in ([0, 1, 2] if tier == 'quick' else [0, 1, 2, 3]):
        for P in Ps:
            out.append((L, 'VH_C12_processAnswer', [n, P], {'weight': n * P + 1}))
    out.append((L, 'VH_C12_lengthCodec', [], {}))
    for k in range(0, 7):
        out.append((L, 'VH_C12_decodeLength_total', [k], {}))
    return out


CHECK = dict(
    id='C12', pkgs=['liteclient'], init_pkgs=['std:io'], instances=instances, opts={'budget_s': 1200},
    level_text='The mutex-protected registry step of the reader (registerCallback, processQueryAnswer, decodeLength/encodeLength) is executed symbolically from a registry with up to 3 pending queries with arbitrary distinct ids and an arbitrary packet payload: the answer reaches exactly the channel registered under payload[4:36] with exactly the TL bytes content, the entry is removed, duplicates and unknown ids deliver nothing, no channel send can block, nothing panics, the registry invariant is re-established (induction over histories).',
    level_note='ONLY the sequential kernel is decided. Goroutine interleavings, data races, deadlines/timeouts, reconnection and goroutine counts are outside what bounded symbolic execution of sequential SSA can express; those clauses of C12 are not claimed.',
    bounds={'pending queries': '0..2 quick / 0..3 thorough', 'payload bytes': 'see instances', 'TL length': 'all n < 2^24'},
    lifted_by='induction on the history of register/answer/unregister steps over the invariant "every registered channel is empty and registered once"',
    outside_claim=['goroutine schedules and data races', 'timeout by the deadline (context/timer)', 'automatic reconnect', 'bounded goroutine count', 'Request() beyond the registry step (select)'],
)
