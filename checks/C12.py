# C12 — concurrent requests each receive their own answer (sequential kernel only)
def instances(tier):
    L = 'liteclient'
    out = []
    Ps = [0, 36, 37, 38, 40, 41, 44] if tier == 'quick' else [0, 4, 36, 37, 38, 39, 40, 41, 44, 48, 64]
    for n in ([0, 1, 2] if tier == 'quick' else [0, 1, 2, 3]):
        for P in Ps:
            out.append((L, 'VH_C12_processAnswer', [n, P], {'weight': n * P + 1}))
    out.append((L, 'VH_C12_lengthCodec', [], {}))
    for k in range(0, 7):
        out.append((L, 'VH_C12_decodeLength_total', [k], {}))
    for (ql, al) in ([(0, 1), (5, 3)] if tier == 'quick' else [(0, 0), (0, 1), (1, 1), (5, 3), (16, 40)]):
        out.append((L, 'VH_C12_request', [ql, al], {'weight': 30}))
    for far in (0, 1):
        out.append((L, 'VH_C12_request_timeout', [3, far], {'weight': 10}))
    return out


CHECK = dict(
    id='C12', pkgs=['liteclient'], init_pkgs=['std:io'], instances=instances, opts={'budget_s': 1200},
    level_text='The mutex-protected registry step of the reader (registerCallback, processQueryAnswer, decodeLength/encodeLength) is executed symbolically from a registry with up to 3 pending queries with arbitrary distinct ids and an arbitrary packet payload: the answer reaches exactly the channel registered under payload[4:36] with exactly the TL bytes content, the entry is removed, duplicates and unknown ids deliver nothing, no channel send can block, nothing panics, the registry invariant is re-established (induction over histories).  Client.Request as a whole (sequential schedule in which the server answers inside the socket write, before Request reaches its select): with another query pending, the frame goes to the round-robin connection and carries adnl.message.query (magic | fresh id | length | query, padded); after the server answers the OTHER query and then this one through the real processQueryAnswer, Request returns exactly its own answer, the other waiter has the other answer, the own id is unregistered and the round-robin index has advanced.  Timeout clause (VH_C12_request_timeout): with a server that never answers, Request returns an error at the CLIENT deadline - also when the caller\'s context carries its own, later deadline (the caller\'s context is still alive on return) - having sent exactly one frame and unregistered its id; time is modelled as passing only while the select has no ready case, up to the earliest deadline among the contexts selected on.',
    level_note='ONLY sequential schedules are decided (select is explored case by case; a context fires on cancel, or - when a blocking select has nothing ready - at the earliest deadline selected on). Goroutine interleavings, data races, timers other than context deadlines (time.After, the reader\'s silence timeout), reconnection and goroutine counts are outside what bounded symbolic execution of sequential SSA can express; those clauses of C12 are not claimed.',
    bounds={'pending queries': '0..2 quick / 0..3 thorough', 'payload bytes': 'see instances', 'TL length': 'all n < 2^24'},
    lifted_by='induction on the history of register/answer/unregister steps over the invariant "every registered channel is empty and registered once"',
    outside_claim=['goroutine schedules and data races', 'timeouts driven by timers other than the per-call context deadline (time.After in the reader, ping/reconnect timers)', 'automatic reconnect', 'bounded goroutine count', 'Request() under schedules in which the answer arrives after the select started (needs a concurrent reader goroutine)'],
)
