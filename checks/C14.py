# C14 — wallet-built messages carry the requested transfers under a valid signature
V = {'V3R1': 5, 'V3R2': 6, 'V4R1': 8, 'V4R2': 9, 'V5Beta': 10, 'V5R1': 11, 'HighLoadV2R2': 16}


def instances(tier):
    W = 'wallet'
    out = []
    for name, ver in V.items():
        ks = [0, 1] if tier == 'quick' else [0, 1, 2]
        if name in ('V3R1', 'V3R2', 'V4R1', 'V4R2'):
            ks = ks + [5]
            if tier == 'thorough':
                ks = ks + [3, 4]
        if name == 'V5Beta':
            ks = ks + [255]      # limit 254
        if name == 'V5R1':
            ks = ks + [256]      # limit 255
        if name == 'HighLoadV2R2':
            ks = ks + [255]      # limit 254
        for k in ks:
            out.append((W, 'VH_C14_send', [ver, k], {'weight': 10 + 100 * k if k < 5 else 1}))
    return out


CHECK = dict(
    id='C14', pkgs=['wallet'], init_pkgs=['std:io', 'std:encoding/base64', 'boc', 'tlb', 'wallet'], instances=instances,
    opts={'budget_s': 2400, 'hash_injective': True},
    level_text='For V3R1, V3R2, V4R1, V4R2, V5Beta, V5R1 and HighLoadV2R2 the real pipeline (wallet.New, RawSend, createSignedMsgBodyCell, ton.CreateExternalMessage, tlb.Marshal, SerializeBoc) is executed symbolically with a symbolic key pair, seqno and expiry over all uint32, symbolic sub-wallet / network id and k outgoing messages with symbolic bodies and modes; the BOC handed to the blockchain interface is parsed back: destination is the wallet itself, the signature verifies under the wallet key and under no other key, ExtractRawMessages returns exactly the requested messages and modes in order, Decode* return the same ids/seqno/expiry; limit+1 messages (5 / 255 / 256) are refused before anything is sent.',
    level_note='Ed25519 is an ideal signature and SHA-256 an ideal hash (uninterpreted, injective): the check decides which bytes are signed and verified, nothing about the primitives. k <= 1 (quick) / 2..4 (thorough); the 254/255-message limits of V5 and highload are outside the bound.',
    bounds={'quick': {'messages': '0..1 and limit+1 for every version', 'message body': '8 symbolic bits'}, 'thorough': {'messages': '0..4 and limit+1'}},
    outside_claim=['real Ed25519 / SHA-256', 'comments and Sendable helpers', 'message counts near 254/255', 'V1/V2 wallets'],
)
