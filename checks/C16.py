# C16 — message and transaction identity hashes
def instances(tier):
    T = 'tlb'
    out = []
    kinds = [(0, 0, 0, 0), (0, 1, 1, 8), (0, 2, 0, 3), (1, 0, 1, 0), (1, 1, 0, 0), (1, 2, 1, 0), (2, 0, 0, 0), (2, 2, 1, 0)]
    if tier == 'thorough':
        kinds = [(k, i, b, vb) for k in (0, 1, 2) for i in (0, 1, 2) for b in (0, 1) for vb in ((0, 1, 3, 8) if k == 0 else (0,))]
    for (k, i, b, vb) in kinds:
        out.append((T, 'VH_C16_Message', [k, i, b, vb], {'weight': 30}))
    for (i, b, fb) in ([(0, 0, 0), (0, 1, 2), (1, 0, 3), (2, 1, 8)] if tier == 'quick' else [(i, b, fb) for i in (0, 1, 2) for b in (0, 1) for fb in (0, 1, 3, 8)]):
        out.append((T, 'VH_C16_normalized', [i, b, fb], {'weight': 40}))
    for (im, stt) in ([(1, 0), (1, 2)] if tier == 'quick' else [(1, 0), (1, 1), (1, 2), (1, 3), (0, 2)]):   # (0, *) includes SourceBoc: ~6 min
        out.append((T, 'VH_C16_transaction', [im, stt], {'weight': 3000 if im == 0 else 60}))
    for k in ((1,) if tier == 'quick' else (0, 1, 2)):
        out.append((T, 'VH_C16_message_in_proof', [k], {'weight': 60}))
    return out


CHECK = dict(
    id='C16', pkgs=['tlb'], init_pkgs=['std:io', 'boc', 'tlb'], instances=instances, opts={'budget_s': 1500},
    level_text='Messages of all three kinds built from symbolic leaves (addresses, amounts, times, init code/data, body bits) are encoded with the real reflection codec, decoded with Message.UnmarshalTLB with and without a caching hasher (cold and warm): the reported hash equals the representation hash of the source cell, the decoded fields are equal, re-encoding has the same hash; a message decoded out of a Merkle proof whose body was pruned (cell of level 1, built with the real MerkleProver and parsed back) reports its representation hash without a hasher and with a hasher that already cached the whole proof; a transaction cell laid out by hand from block.tlb (storage-only description, optional inbound external message): Transaction.UnmarshalTLB reports the representation hash of the source cell with and without a caching hasher, the scalar fields are the ones laid out, the inbound message decoded inside it reports the hash of its own cell (thorough: SourceBoc() parses back to a cell with the transaction hash); the normalised hash of ext-in messages equals the hash of the canonical form for every import fee, init placement and body placement.',
    level_note='SHA-256 is an ideal hash (uninterpreted, collision-free): the check decides that the byte sequences hashed are the same, not anything about SHA-256. Mainnet fixtures are outside this check; SourceBoc is in the thorough tier only.',
    bounds={'leaves': 'std addresses (all workchains/hashes), amounts of the stated byte sizes, 8-bit code/data cells, 12-bit body', 'structure': 'kind x init{none,inline,ref} x body{inline,ref}'},
    outside_claim=['transactions with out-messages / ordinary descriptions', 'messages with anycast or extra currencies', 'mainnet transactions', 'real SHA-256'],
)
