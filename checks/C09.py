# C09 — schema compilers emit Go code that implements the schema (TL half, translation validation)
import os, subprocess, sys, tempfile, shutil
VERIF = os.path.dirname(os.path.dirname(os.path.abspath(__file__)))
REPO = os.environ.get('VERIF_REPO', '/repo')


def listing():
    d = tempfile.mkdtemp(prefix='c09-', dir=f'{VERIF}/.work' if os.path.isdir(f'{VERIF}/.work') else None)
    try:
        r = subprocess.run([sys.executable, f'{VERIF}/harness/gen/gen_c09.py', REPO, f'{d}/h.go'], capture_output=True, text=True)
        out = []
        for line in r.stdout.split('\n'):
            p = line.split()
            if len(p) == 5 and p[0] in ('type', 'req', 'call'):
                out.append((p[0], p[1], int(p[2]), int(p[3]), int(p[4])))
        return out
    finally:
        shutil.rmtree(d, ignore_errors=True)


def instances(tier):
    L = 'liteclient'
    out = []
    for kind, gt, nbytes, nvec, nopt in listing():
        if kind == 'call':
            # generated request method against the stub transport
            if not gt.startswith('Test') and not (gt in ('LiteServerGetTime', 'LiteServerGetBlockHeader', 'LiteServerGetMasterchainInfoExt') or tier != 'quick'):
                continue
            for bl in ([0, 3] if nbytes else [0]):
                for vl in ([0, 1] if nvec else [0]):
                    out.append((L, f'VH_C09_call_{gt}', [bl, vl, -1 if nopt <= 6 else 0], {'weight': 5 + nbytes * bl + 20 * vl}))
            continue
        if not gt.startswith('Test') and tier == 'quick':
            continue     # the lite_api.tl part of the regenerated file is byte-identical to the checked-in one and is covered by C10
        bls = [0]
        if nbytes:
            bls = [0, 3, 254] if tier == 'quick' else [0, 1, 3, 4, 253, 254, 255]
        vls = [0]
        if nvec:
            vls = [0, 2] if tier == 'quick' else [0, 1, 2]
        fls = [-1]          # -1: the flags field is symbolic (all combinations at once)
        if nopt > 6:
            # many optionals: one instance per single flag bit, none and all of them
            fls = [0, 0xffffffff] + [1 << i for i in range(32)]
        for bl in bls:
            for vl in vls:
                for fl in fls:
                    if nopt > 6 and bl not in (0, 3):
                        continue
                    out.append((L, f'VH_C09_{kind}_{gt}', [bl, vl, fl], {'weight': 1 + nbytes * bl + 20 * vl}))
    # TL-B generator (tlb/parser): generated structs + reflection codec against the schema bit layout
    nbs = [0, 1, 8] if tier == 'quick' else list(range(0, 9))
    for nb in nbs:
        out.append((L, 'VH_C09_tlb_A', [nb], {'weight': 20}))
    out.append((L, 'VH_C09_tlb_U', [0, 0], {'weight': 10}))
    for nb in nbs:
        out.append((L, 'VH_C09_tlb_U', [1, nb], {'weight': 20}))
    for (w, nb, hm) in ([(0, 1, 1), (1, 2, 0)] if tier == 'quick' else [(w, nb, hm) for w in (0, 1) for nb in (0, 1, 8) for hm in (0, 1)]):
        out.append((L, 'VH_C09_tlb_R', [w, nb, hm], {'weight': 60}))
    return out


CHECK = dict(
    id='C09', pkgs=['liteclient'], init_pkgs=['std:io', 'boc', 'tlb', 'liteclient'], instances=instances, opts={'budget_s': 1500, 'unwind': 1200},
    gen=[('harness/gen/gen_c09.py', 'liteclient', 'gen_c09.go'), ('harness/gen/gen_c09_tlb.py', 'liteclient', 'gen_c09_tlb.go')],
    level_text='Translation validation of the TL generator output: tl/parser (current tree) is run natively on lite_api.tl extended with declarations that exercise what it lacks (an optional for every flag bit 0..31 over every builtin type, pointer optionals named "mode", vectors of builtin and declared types, nested declared types, unions with 2 and 5 constructors incl. an empty one, functions returning unions); its output replaces liteclient/generated.go through the build overlay; every generated MarshalTL/UnmarshalTL and the generated request-decoder table is then executed symbolically against the byte layout computed from the schema text, for all field values within the C10 bounds; every generated request METHOD of the test functions (quick: plus three lite-server functions; thorough: all) is run against a stub transport: any value of the result type (incl. the empty constructor of a union: a 4-byte response) laid out per schema comes back as that value, and the bytes handed to the transport are the function id followed by the schema layout of the request.',
    level_note='This decides "the emitted code implements the schema" for this fixed family of declarations, not for all schemas; parser/lexer behaviour and text/template are exercised only through their output. The determinism clause is not decided by a solver (determinism of two generator runs is recorded as a note in the generator log).',
    bounds={'schema family': 'lite_api.tl + 13 test declarations + 3 test functions', 'byte string lengths': [0, 3, 254], 'vector lengths': [0, 2]},
    outside_claim=['"for all schemas": programs are a fixed family here', 'TL-B generator beyond the 4-declaration family (parametrised combinators, hashmaps, implicit fields, conditional fields)', 'generating twice gives identical output (textual comparison, not a solver verdict)', 'the transport below liteServerRequest (replaced by a stub through the build overlay)', 'lite-server error responses of request methods'],
)
