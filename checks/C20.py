# C20 — JSON forms of chain values parse back to the same value (hand-rolled forms only)
def instances(tier):
    out = []
    B, T = 'boc', 'tlb'
    ns = [0, 1, 2, 3, 4, 5, 7, 8, 9, 12, 15, 16, 20] if tier == 'quick' else list(range(0, 25)) + [32, 40]   # 40 bits: ~10 min; the full range 0..48 did not finish in 13 min on 16 cores
    for n in ns:
        out.append((B, 'VH_C20_fift_roundtrip', [n], {'weight': n + 1}))
    for n in ([1016, 1021, 1023] if tier == 'quick' else [256, 511, 512, 1000, 1016, 1017, 1018, 1019, 1020, 1021, 1022, 1023]):
        out.append((B, 'VH_C20_fift_roundtrip_long', [n], {'weight': 40}))
    for L in ([0, 1, 2, 3, 4] if tier == 'quick' else [0, 1, 2, 3, 4, 5, 6]):
        out.append((B, 'VH_C20_fift_malformed', [L], {'weight': 2 ** L}))
    out += [(T, 'VH_C20_json_Uint16', [0], {'weight': 30}), (T, 'VH_C20_json_Uint16', [1], {'weight': 30}), (T, 'VH_C20_json_Int16', [], {'weight': 40}),
            (T, 'VH_C20_json_Uint7', [], {}), (T, 'VH_C20_json_magic', [], {'weight': 300}), (T, 'VH_C20_json_addrstd', [], {'weight': 50}), (T, 'VH_C20_json_coins', [1000 if tier == 'quick' else 100000], {'weight': 200})]
    return out


CHECK = dict(
    id='C20', pkgs=['boc', 'tlb'], init_pkgs=['std:io', 'std:encoding/hex', 'std:strings', 'std:strconv', 'boc', 'tlb'], instances=instances,
    opts={'budget_s': 1500},
    level_text='Hand-rolled JSON/text forms that stay inside the modelled library: boc.BitString Fift hex and its JSON form (every bit string of the stated lengths, incl. stale bits beyond the length, and arbitrary malformed text up to 4-6 characters: error or value, never a panic; the same round trip at the long end - 1016, 1021 and 1023 bits (quick) / twelve lengths from 256 to 1023 bits (thorough) - with a fixed pattern in the leading bytes and arbitrary last two bytes); generated integer types Uint16/Int16/Uint7 over their ENTIRE domain (print with %d, parse with strconv, quoted and unquoted); Magic (constructor tag, "0x%x" / ParseUint base 16) over all 2^32 values; MsgAddress standard-address text "<workchain>:<64 hex>" for every workchain -128..127 (account part fixed except one symbolic byte); Grams and SignedCoins for values of at most 3 (quick) / 5 (thorough) decimal digits of both signs.',
    level_note='encoding/json (reflection) is not modelled (json.Marshal of a plain string that needs no escaping is): Maybe, HashmapE, abi message bodies, tl.Int256, AccountID (json.Marshal of a string) are not covered; fmt.Sscanf users (Bits256, anycast text) are not covered; decimal text is modelled up to 5 digits (larger values are outside the explored domain, surfaced as an engine-limit VC when reachable).',
    bounds={'quick': {'bit string lengths': [0, 1, 2, 3, 4, 5, 7, 8, 9, 12, 15, 16, 20], 'long bit strings (2 symbolic bytes)': [1016, 1021, 1023], 'decimal digits': 5}, 'thorough': {'bit string lengths': '0..24, 32, 40', 'long bit strings (2 symbolic bytes)': [256, 511, 512, 1000, 1016, 1017, 1018, 1019, 1020, 1021, 1022, 1023]}},
    outside_claim=['everything routed through encoding/json reflection', 'fmt.Sscanf-based parsers', 'integers with more than 5 decimal digits', 'MsgAddress text forms other than AddrStd without anycast (AddrVar, AddrExtern, Anycast(..) use fmt.Sscanf)', 'Cell JSON (BOC base64 inside JSON)'],
)
