# C11 — ADNL frames and handshake (with ideal crypto)
def instances(tier):
    L = 'liteclient'
    out = []
    ns = [0, 1, 4, 61] if tier == 'quick' else [0, 1, 2, 3, 4, 5, 31, 32, 33, 61, 64, 128, 256]
    for n in ns:
        out.append((L, 'VH_C11_frame_roundtrip', [n], {'weight': n + 1}))
        out.append((L, 'VH_C11_magic', [n], {}))
        poss = sorted(set([4, 5, 35, 36, 36 + n - 1, 36 + n, 36 + n + 1, n + 67])) if tier == 'quick' else range(4, n + 68)
        for pos in poss:
            if 4 <= pos < n + 68:
                out.append((L, 'VH_C11_corrupt_byte', [n, pos], {'weight': n + 1}))
        keeps = sorted(set([0, 1, 3, 4, 5, 36, n + 36, n + 67])) if tier == 'quick' else range(0, n + 68)
        for k in keeps:
            if 0 <= k < n + 68:
                out.append((L, 'VH_C11_truncated', [n, k], {}))
    out.append((L, 'VH_C11_length_bounds', [], {}))
    for (a, b) in ([(0, 0), (1, 4), (4, 0)] if tier == 'quick' else [(0, 0), (1, 4), (4, 0), (16, 16), (61, 3)]):
        out.append((L, 'VH_C11_two_packets', [a, b], {'weight': a + b + 1}))
    out.append((L, 'VH_C11_params_layout', [], {}))
    for extra in ([0, 5] if tier == 'quick' else [0, 1, 5, 68, 200]):
        out.append((L, 'VH_C11_handshake_consumes', [extra], {'weight': 5}))
    return out


CHECK = dict(
    id='C11', pkgs=['liteclient'], init_pkgs=['std:io', 'std:bufio'], nostop=['bufio'], instances=instances, opts={'budget_s': 1200, 'hash_injective': True},
    level_text='Packet.marshal/size/hash/MagicType and ParsePacket executed symbolically for all payload and nonce contents at the stated payload lengths: exact frame layout, marshal/parse round trip through arbitrary continuous key streams, stream continuity across two packets, rejection of every single-byte corruption (position >= 4) and every truncation, rejection of every length field outside 64..8MiB.  Handshake (encryptedConn.handshake on a harness net.Conn, AES-CTR ideal, arbitrary keys/parameters/receiving key stream): exactly the 68 bytes of the confirmation frame are taken from the connection - bytes the server sent after it stay available to the packet reader - and the 256-byte request carries our public key at offset 32; the session parameter accessors return rx key | tx key | rx nonce | tx nonce | padding = bytes 0..32..64..80..96..160 and hash() is SHA-256 of all 160 bytes.',
    level_note='SHA-256 is an ideal hash (uninterpreted function with collision freedom); the stream cipher is an arbitrary XOR key stream supplied by the harness (cipher.Stream interface). AES-CTR is an ideal stream cipher (uninterpreted key stream); X25519 and dialing are outside this check (see outside_claim).',
    bounds={'quick': {'payload bytes': [0, 1, 4, 61]}, 'thorough': {'payload bytes': [0, 1, 2, 3, 4, 5, 31, 32, 33, 61, 64, 128, 256]}},
    assumptions=['a corruption of the LENGTH field that shortens the frame is excluded: accepting it would need the payload to embed the checksum of its own prefix (probability 2^-256 for honest payloads)'],
    outside_claim=['real X25519/AES/SHA-256', 'the encrypted part of the handshake request (ideal cipher) and key derivation in newKeys', 'newEncryptedConnection dialing', 'payloads near 8 MiB', 'the handleIncomingPackets goroutine itself'],
)
