# C01 — BOC serialisation round-trips and is canonical
def instances(tier):
    B = 'boc'
    out = []
    if tier == 'quick':
        ns = sorted(set(8 * b + k for b in (0, 1, 2, 63, 126, 127) for k in range(8) if 8 * b + k <= 1023))
        rs = [0, 1, 4]
    else:
        ns = list(range(0, 1024))
        rs = [0, 1, 2, 3, 4]
    for n in ns:
        for r in rs:
            out.append((B, 'VH_C01_cell_repr', [n, r], {'weight': n + 1}))
    for mask in range(0, 8):
        for (n, r) in ([(0, 0), (9, 1), (16, 4)] if tier == 'quick' else [(0, 0), (1, 0), (8, 2), (9, 1), (16, 4), (1023, 4)]):
            out.append((B, 'VH_C01_cell_with_hashes', [n, r, mask], {'weight': 5}))
    for (k, sym) in ([(1, 1), (2, 1), (3, 1), (8, 0)] if tier == 'quick' else [(1, 1), (2, 1), (3, 1), (4, 1), (5, 1), (8, 0), (16, 0)]):
        out.append((B, 'VH_C01_boc_chain', [k, sym], {'weight': 100 * k}))
    out.append((B, 'VH_C01_boc_sharing', [], {'weight': 300}))
    for shape in (0, 1):
        for o in (range(8) if tier == 'quick' else [-1]):
            out.append((B, 'VH_C01_boc_dag', [shape, o], {'weight': 5 if o >= 0 else 3000}))
    for o in ([0] if tier == 'quick' else [-1, 0, 7]):
        out.append((B, 'VH_C01_boc_dag', [2, o], {'weight': 1500}))
    for k in ([3] if tier == 'quick' else [2, 3]):   # k = 4 did not finish in 10 min
        out.append((B, 'VH_C01_boc_wide', [k], {'weight': 1000 * k}))
    for (k, o) in ([(256, 7)] if tier == 'quick' else [(255, 0), (255, 7), (256, 0), (256, 7), (257, 2), (257, 5)]):
        out.append((B, 'VH_C01_boc_count', [k, o], {'weight': 2000}))
    widths = [(1, 1), (2, 3), (4, 8)] if tier == 'quick' else [(sz, off) for sz in (1, 2, 3, 4) for off in range(1, 9)]
    for variant in (0, 1, 2):
        for (sz, off) in widths:
            for shape in ((0, 1) if variant == 0 else (0,)):
                out.append((B, 'VH_C01_foreign_boc', [variant, sz, off, shape], {'weight': 20}))
    return out


CHECK = dict(
    id='C01', pkgs=['boc'], init_pkgs=['std:io', 'boc'], instances=instances, opts={'budget_s': 1800, 'hash_injective': True, 'unwind': 1200},
    level_text='Cell record codec: for a cell with n data bits (arbitrary buffer contents incl. stale bits beyond the written length), any type 0..4, any level mask, r references, bocReprWithoutRefs/d1/d2 produce exactly the descriptor bytes, data and completion tag of the format, and deserializeCellData inverts the record (bits, length, type, mask, ordered reference indices, empty residue) and re-serialises canonically; records written by another serialiser in with-hashes mode (every level mask) parse to the same cell; whole-BOC round trip and canonical bytes for chains of 1..3 cells with symbolic data and a concrete chain of 8 cells under all 8 option combinations, and across the 1-byte/2-byte offset-width boundary (3 cells of ~1000 bits); the 1-byte/2-byte index-width boundary at 256 cells as a CONCRETE execution inside the encoder (chains of 255/256/257 cells, no symbolic input: symbolic data did not finish); a diamond with an equal twin leaf is stored with 4 cells and parses to a shared object; further DAG shapes through import / de-duplication / reordering and back (root with four leaves, two levels with a leaf shared by both inner cells, a leaf shared at two depths): every cell stored once, root at index 0, same tree with shared objects, canonical bytes - quick: each of the 8 option combinations concretely with a symbolic root, thorough: options symbolic; bags laid out by hand from the TL-B definition of all three containers (b5ee9c72 with symbolic flag bits, 68ff65f3, acc3a728), index width 1..4 bytes, offset width 1..8 bytes, one root or two roots in non-trivial order, parse to the intended trees.',
    level_note='SHA-256 ideal (injective), CRC32C uninterpreted. Whole-BOC shapes are chains, one diamond with a twin leaf, three further DAG shapes and a two-root bag; several SYMBOLIC leaves at once (symbolic de-duplication) did not finish; other DAG shapes, the 65536-cell reference-width transition of the serialiser (the 256-cell one is covered concretely only; the parser is covered for every width) and mainnet fixtures are outside the bound.',
    bounds={'quick': {'data bits': 'all 8 residues x byte lengths {0,1,2,63,126,127}', 'refs': [0, 1, 4]}, 'thorough': {'data bits': '0..1023', 'refs': '0..4'}},
    outside_claim=['more than 16 cells', 'depth near 1024', 'serialiser ref-width transition at 65536 cells; the one at 256 cells only for concrete chains', 'absent cells', 'mainnet fixtures'],
)
