# C01 — BOC serialisation round-trips and is canonical
def instances(tier):
    B = 'boc'
    out = []
    if tier == 'quick':
        ns = sorted(set(8 * b + k for b in (0, 1, 2, 63, 126, 127) for k in range(8) if 8 * b + k <= 1023))
        rs = [0, 1, 4]
    else:
        ns = list(range(0, 1024))
        rs = [0, 1, 2, 3, 4]
    for n in ns:
        for r in rs:
            out.append((B, 'VH_C01_cell_repr', [n, r], {'weight': n + 1}))
    return out


CHECK = dict(
    id='C01', pkgs=['boc'], init_pkgs=['std:io', 'boc'], instances=instances, opts={'budget_s': 900},
    level_text='Cell record codec: for a cell with n data bits (arbitrary buffer contents incl. stale bits beyond the written length), any type 0..4, any level mask, r references, bocReprWithoutRefs/d1/d2 produce exactly the descriptor bytes, data and completion tag of the format, and deserializeCellData inverts the record (bits, length, type, mask, ordered reference indices, empty residue) and re-serialises canonically.',
    level_note='work in progress: whole-BOC round trip over DAG shapes follows. Hashing is not involved in this part.',
    bounds={'quick': {'data bits': 'all 8 residues x byte lengths {0,1,2,63,126,127}', 'refs': [0, 1, 4]}, 'thorough': {'data bits': '0..1023', 'refs': '0..4'}},
    outside_claim=['more than 4 cells', 'depth near 1024', 'ref-width transitions at 256/65536 cells', 'mainnet fixtures'],
)
