# C02 — cell hash, depth and level follow the TON definition
def instances(tier):
    return [('boc', 'VH_C02_levelmask', [], {})]


CHECK = dict(
    id='C02', pkgs=['boc'], init_pkgs=['std:io', 'boc'], instances=instances, opts={'budget_s': 1200},
    level_text='Level-mask algebra (Level, HashIndex, HashesCount, Apply, IsSignificant) for all 2^32 masks and levels 0..32 against loop references.',
    level_note='work in progress: hashing step harness follows',
    bounds={'masks': 'all 2^32', 'levels': '0..32'},
    outside_claim=['real SHA-256'],
)
