# C02 — cell hash, depth and level follow the TON definition
def instances(tier):
    B = 'boc'
    out = [(B, 'VH_C02_levelmask', [], {})]
    if tier == 'quick':
        combos = [(0, -1, -1), (0, 0, -1), (0, 0, 1), (0, 3, -1), (0, 5, 2), (0, 7, 0), (3, 0, -1), (3, 1, -1), (3, 3, -1), (3, 6, -1), (3, 7, -1), (4, 1, 0), (4, 5, 2), (4, 7, 7)]
    else:
        ms = [-1, 0, 1, 2, 3, 4, 5, 6, 7]
        combos = [(0, a, b) for a in ms for b in ms if not (a == -1 and b != -1)]
        combos += [(3, a, -1) for a in ms if a >= 0]
        combos += [(4, a, b) for a in ms for b in ms if a >= 0 and b >= 0]
    for (t, a, b) in combos:
        out.append((B, 'VH_C02_hash_step', [t, a, b], {'weight': 10 + 10 * (max(a, 0) + max(b, 0))}))
    wide = [(0, 0, 0, 0, -1), (0, 1, 0, 2, 0), (0, 0, 3, 0, 5), (2, -1, -1, -1, -1)] if tier == 'quick' else \
        [(0, 0, 0, 0, -1), (0, 0, 0, 0, 0), (0, 1, 0, 2, 0), (0, 0, 3, 0, 5), (0, 7, 7, 7, 7), (0, 1, 2, 4, -1), (2, -1, -1, -1, -1)]
    for w in wide:
        out.append((B, 'VH_C02_hash_step4', list(w), {'weight': 40 + 10 * sum(max(x, 0) for x in w[1:])}))
    return out


CHECK = dict(
    id='C02', pkgs=['boc'], init_pkgs=['std:io', 'boc'], instances=instances, opts={'budget_s': 1500},
    level_text='(a) level-mask algebra for all 2^32 masks and levels 0..32; (b) one hashing step of newImmutableCell/Hash/Depth: a cell of type ordinary / Merkle proof / Merkle update with 0..2 children (and a sample of 3- and 4-child ordinary cells, and library cells) that are arbitrary ordinary leaves or pruned branches (any level mask 1..7, arbitrary stored hashes and depths), level mask as the format requires, symbolic data: for every level 0..3 hash and depth equal the specification transcript (descriptor bytes with the level-applied mask, data or previous-level hash, child depths and hashes at level or level+1), ErrDepthIsTooBig exactly at child depth >= 1024; (c) the same value through Cell.Hash, a cold and a warm Hasher, and after reads.',
    level_note='SHA-256 is an ideal hash (uninterpreted, collision-free): equality of digests is equality of the hashed byte sequences. One step + induction on the height of the DAG (children are arbitrary cells carrying arbitrary hashes/depths). Library cells and 3-4 children are outside the instance list.',
    lifted_by='induction on the height of the cell DAG: children are modelled as arbitrary immutable cells exposing arbitrary per-level hashes and depths',
    bounds={'quick': {'children': '0..2 (+3, 4 for a sample)', 'pruned masks': 'sample'}, 'thorough': {'children': '0..2', 'pruned masks': 'all 1..7 combinations'}},
    outside_claim=['real SHA-256', 'mainnet blocks', 'cells violating exotic well-formedness', 'Merkle cells with a wrong number of references', '3/4-child cells beyond the listed mask samples'],
)
