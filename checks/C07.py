# C07 — parsing untrusted BOC bytes never crashes and yields sound cells
def classes(L):
    """the header classes partition all byte strings of length L (see harness vC07Input)"""
    if L < 6:
        return [(0, 0, 0)]
    out = [(3, 0, 0)]
    for pfx in (0, 1, 2):
        for s in range(0, 6):
            for o in range(0, 10):
                out.append((pfx, s, o))
    return out


def weight(L, pfx, s, o):
    if pfx == 3 or s in (0, 5) or o in (0, 9):
        return 1
    need = 6 + 3 * s + o + s + 2
    return max(1, (L - need + 3)) ** 3 if L >= need else 2


def instances(tier):
    B = 'boc'
    out = []
    maxL = 16 if tier == 'quick' else 18
    for L in range(0, maxL + 1):
        for (pfx, s, o) in classes(L):
            out.append((B, 'VH_C07_deserialize', [L, pfx, s, o], {'weight': weight(L, pfx, s, o)}))
    hmax = 20 if tier == 'quick' else 26
    for L in range(maxL + 1, hmax + 1):
        for (pfx, s, o) in classes(L):
            out.append((B, 'VH_C07_header', [L, pfx, s, o], {'weight': weight(L, pfx, s, o)}))
    for L in ([2, 3, 6, 12, 40] if tier == 'quick' else [2, 3, 6, 12, 40, 70, 132]):
        for rs in (1, 2):
            out.append((B, 'VH_C07_cell', [L, rs], {'weight': L}))
    out.append((B, 'VH_C07_tostring_budget', [9 if tier == 'quick' else 40], {'weight': 5}))
    return out


CHECK = dict(
    id='C07', pkgs=['boc'], init_pkgs=['std:io', 'boc'], instances=instances,
    opts={'budget_s': 2400, 'unwind': 400}, witness_runs={'quick': 40, 'thorough': 200},
    level_text='DeserializeBoc / parseBocHeader / deserializeCellData are executed symbolically on EVERY byte string up to the length bound (all bytes symbolic; the instance family splits on magic prefix, size field and offset-size byte and is a partition). Every Go run-time check is a VC, every make() has an allocation VC (elements <= input length + 8), loops must terminate within the unwinding bound, and on success the returned roots must be finite well-formed trees.  Printing: one inductive step of the expansion budget of Cell.ToString (toStringImpl on a shared DAG with a SYMBOLIC starting budget): the budget never becomes negative, each expanded cell costs one unit and the printed lines are bounded by the budget spent - so ToString expands at most BOCSizeLimit cells whatever the sharing.',
    level_note='Bound: input length (quick: full parser <= 16 bytes, header <= 20 bytes; thorough 18 / 26). CRC32C is an uninterpreted function (consistent, arbitrary). Longer inputs are outside the claim.',
    bounds={'quick': {'DeserializeBoc input bytes': '0..16', 'parseBocHeader input bytes': '17..20', 'single cell record bytes': [2, 3, 6, 12, 40]},
            'thorough': {'DeserializeBoc input bytes': '0..18', 'parseBocHeader input bytes': '19..26', 'single cell record bytes': [2, 3, 6, 12, 40, 70, 132]}},
    assumptions=['crc32.Checksum is an uninterpreted function of its input bytes'],
    outside_claim=['inputs longer than the stated bound', 'stack depth of later hashing/printing of deep trees (bounded by 1024 in newImmutableCell, not exercised here)',
                   'hex/base64/JSON wrappers (stdlib decoding in front of the same parser)'],
)
