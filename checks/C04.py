# C04 — TL-B encodings are bit-exact with the schemas
import re, os
REPO = os.environ.get('VERIF_REPO', '/repo')


def instances(tier):
    T = 'tlb'
    out = []
    src = open(f'{REPO}/tlb/integers.go').read()
    ints = [(k + n, int(n)) for k, n, _ in re.findall(r'^type (Uint|Int)(\d+) (u?int\d+)$', src, re.M)]
    for name, n in ints:
        if tier == 'quick' and n not in (1, 2, 7, 8, 9, 15, 16, 31, 32, 33, 56, 57, 58, 63, 64):
            continue
        for pre in ([5] if tier == 'quick' else [0, 2, 5, 7]):
            out.append((T, f'VH_C03_int_{name}', [pre], {'weight': n}))
    for k, n in re.findall(r'^type (Uint|Int)(\d+) big\.Int$', src, re.M):
        out.append((T, f'VH_C03_big_{k}{n}', [5], {'weight': 40}))
    for N in sorted(int(n) for n in re.findall(r'^type VarUInteger(\d+) big\.Int$', src, re.M)):
        if tier == 'quick' and N not in (4, 16, 32):
            continue
        for nb in range(0, N):
            out.append((T, f'VH_C03_var_VarUInteger{N}', [nb, 3], {'weight': nb + 1}))
    for (k, L, d) in [(0, 0, 0), (1, 9, 0), (2, 0, 0), (2, 0, 30), (3, 9, 5)]:
        out.append((T, 'VH_C03_MsgAddress', [k, L, d], {'weight': 20}))
    for h in ('VH_C03_TickTock', 'VH_C03_ShardIdent', 'VH_C03_combinators', 'VH_C03_Grams', 'VH_C03_SignedCoins', 'VH_C03_plain_kinds'):
        out.append((T, h, [], {'weight': 60}))
    for (k, i, b, vb) in ([(0, 0, 0, 1), (0, 1, 1, 8), (1, 0, 0, 0), (1, 2, 1, 0), (2, 1, 0, 0)] if tier == 'quick' else
                          [(k, i, b, vb) for k in (0, 1, 2) for i in (0, 1, 2) for b in (0, 1) for vb in ((0, 8) if k == 0 else (0,))]):
        out.append((T, 'VH_C16_Message', [k, i, b, vb], {'weight': 30}))
    for hi in (0, 1):
        out.append(('ton', 'VH_C04_external_message', [hi], {'weight': 20}))
    return out


CHECK = dict(
    id='C04', pkgs=['tlb', 'ton'], init_pkgs=['std:io', 'boc', 'tlb'], instances=instances, opts={'budget_s': 1200},
    gen=[('harness/gen/gen_ints.py', 'tlb', 'gen_ints.go'), ('harness/gen/gen_bigints.py', 'tlb', 'gen_bigints.go')],
    level_text='The cell produced by the real encoders is compared bit for bit (and reference for reference) with an independent specification encoder written on an ideal bit list: big-endian twos-complement intN/uintN of every generated width, VarUInteger n with minimal byte length, Grams/SignedCoins, all four MsgAddress constructors with anycast, ShardIdent (tagged), Maybe/Either/Ref flags and references, CommonMsgInfo (3 constructors), StateInit (inline and in a reference), Message -- for ALL leaf values within the stated sizes; the external-message envelope built by ton.CreateExternalMessage (every int8 workchain and address, with and without a state-init) has exactly the block.tlb layout: ext_in_msg_info, addr_none source, zero import fee, init and body in references.',
    level_note='The specification encoders are transcribed from block.tlb in the harness (vSpecBits, vSpecGrams, ...); they share no code with boc.BitString writers. Structures not listed and mainnet records are outside the check.',
    bounds={'quick': {'int widths': [1, 2, 7, 8, 9, 15, 16, 31, 32, 33, 56, 57, 58, 63, 64], 'bit offset': 5}, 'thorough': {'int widths': 'all', 'bit offsets': [0, 2, 5, 7]}},
    outside_claim=['re-encoding of mainnet records', 'wallet bodies (see C14)', 'account/transaction records', 'dictionaries (C05)'],
)
