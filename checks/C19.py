# C19 — TON Connect proofs (with ideal crypto)
def instances(tier):
    T = 'tonconnect'
    out = []
    for (dl, pl) in ([(0, 0), (8, 8)] if tier == 'quick' else [(0, 0), (1, 1), (8, 8), (16, 32), (3, 64)]):
        out.append((T, 'VH_C19_message', [dl, pl], {}))
    whats = [2, 3, 4, 5] + list(range(10, 18)) + list(range(20, 24))
    for w in whats:
        out.append((T, 'VH_C19_signature', [4, 4, w], {'weight': 20}))
    for ver in ([6, 9] if tier == 'quick' else [5, 6, 8, 9]):
        for (hc, hd) in ((1, 1), (0, 1), (1, 0), (0, 0)):
            out.append((T, 'VH_C19_stateinit', [ver, hc, hd], {'weight': 40}))
    for (dl, pl) in ([(4, 4)] if tier == 'quick' else [(0, 0), (4, 4), (8, 16)]):
        out.append((T, 'VH_C19_client_proof', [dl, pl], {'weight': 3000}))
    for (life, wait) in ([(2, 0), (1, 3)] if tier == 'quick' else [(2, 0), (3, 1), (1, 3), (2, 4)]):
        out.append((T, 'VH_C19_payload', [life, wait], {'weight': 30, 'concrete_clock': True}))
    for z in ([0, 1, 2, 8, 9] if tier == 'quick' else list(range(0, 12)) + [31]):
        out.append((T, 'VH_C19_pubkey_from_getmethod', [z], {'weight': 10}))
    return out


CHECK = dict(
    id='C19', pkgs=['tonconnect'], init_pkgs=['std:io', 'std:encoding/base64', 'std:encoding/hex', 'std:strconv', 'std:strings', 'boc', 'tlb', 'wallet', 'tonconnect'], instances=instances,
    opts={'budget_s': 2400, 'hash_injective': True, 'vc_timeout': 400},
    level_text='createMessage produces exactly sha256(0xffff | "ton-connect" | sha256("ton-proof-item-v2/" | BE32(wc) | address | LE32(len domain) | domain | LE64(ts) | payload)) for all workchains, addresses, timestamps and domains/payloads of the stated lengths; with an ideal signature the proof verifies under the wallet key and is rejected under another key and when any byte of timestamp or workchain, the address, the domain or the payload differs; ParseStateInit of a known wallet state-init (V3R2, V4R2; arbitrary key and sub-wallet id) serialised to base64 BOC returns exactly the key, returns an error (never nil,nil) when code or data is missing; compareStateInitWithAddress accepts exactly the hash of the state-init; the get-method path (Server.getWalletPubKey through abi.GetPublicKey with a stub executor answering with an arbitrary 256-bit integer) hands exactly the 32 big-endian bytes of the key to verification, for keys with 0..8 leading zero bytes, and refuses implausibly short keys; client side: a proof made by CreateSignedProof (workchain of <= 5 digits, domain/payload symbolic) is taken apart by the server-side convertTonProofMessage into exactly the same account, time stamp, domain and payload, and verifies under the wallet key; the time-limited payload (GeneratePayload / CheckPayload with an ideal HMAC, symbolic secret, deterministic clock): accepted while younger than its life time, refused once life time + 1 s has passed, refused when the text has another length.',
    level_note='SHA-256 and Ed25519 ideal (injective). Not covered: CheckProof end to end as one call (its parts are: message, signature, key from get-method, key from state-init), forged payloads, JSON transport.',
    bounds={'domain/payload bytes': 'see instances', 'versions': 'V3R2, V4R2 (quick), + V3R1, V4R1 (thorough)'},
    outside_claim=['V5 state-inits in ParseStateInit (the symbolic run of the V5R1 instance produced a counterexample that neither the native replay nor a concrete re-run of the engine confirms: an unresolved engine issue, the instance is excluded rather than reported)', 'Server.CheckProof as one call (the executor is a harness stub)', 'forged payloads (only 16 of the 32 MAC bytes are compared: outside what the ideal-hash model decides)', 'proof lifetime check', 'real Ed25519/SHA-256/HMAC'],
)
