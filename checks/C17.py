# C17 — account addresses and shard ids keep their meaning across all forms
def instances(tier):
    T = 'ton'
    out = [(T, 'VH_C17_shard_roundtrip', [], {}), (T, 'VH_C17_shard_match_account', [], {}), (T, 'VH_C17_shard_match_block', [], {}),
           (T, 'VH_C17_shard_family', [], {}), (T, 'VH_C17_shard_parent_child', [], {}), (T, 'VH_C17_convertShardIdent', [], {}),
           (T, 'VH_C17_account_tl', [], {}), (T, 'VH_C17_account_tlb', [], {})]
    for d in ([1, 8, 30] if tier == 'quick' else list(range(1, 31))):
        out.append((T, 'VH_C17_anycast', [d], {}))
    for (which, flags) in ([(1, 2)] if tier == 'quick' else [(0, 4), (1, 4)]):
        out.append((T, 'VH_C17_friendly_roundtrip', [which, flags], {'weight': 2000 if which == 0 else 1000}))
    for p in ([0, 1, 2, 23, 44, 45, 46, 47] if tier == 'quick' else list(range(48))):
        for wc in ([0] if tier == 'quick' else [0, -1]):
            out.append((T, 'VH_C17_friendly_corrupt', [p, wc], {'weight': 10 * (50 - p)}))
    for pos in ([31] if tier == 'quick' else [29, 30, 31]):   # earlier positions: the CRC16 chain over 33 bytes after a symbolic byte did not finish (pos 0: unknown after 20 min)
        out.append(('liteclient', 'VH_C17_adnl_roundtrip', [pos], {'weight': 300}))
    out.append((T, 'VH_C17_raw_roundtrip', [], {'weight': 1500}))
    for k in ([1, 2, 63] if tier == 'quick' else [1, 2, 3, 16, 31, 32, 62, 63]):
        out.append((T, 'VH_C17_raw_zero_fill', [k], {'weight': 5}))
    return out


CHECK = dict(
    id='C17', pkgs=['ton', 'liteclient'], nostop=['internal/stringslite'], init_pkgs=['std:io', 'std:encoding/base64', 'std:encoding/hex', 'std:strconv', 'std:strings', 'std:encoding/base32', 'std:github.com/snksoft/crc', 'utils'], instances=instances, opts={'budget_s': 1200},
    level_text='TL form (LE32 workchain + 32 raw bytes) and TL-B form (ToMsgAddress / AccountIDFromTlb, anycast rewrite for the stated depths) of AccountID round-trip for all addresses and workchains; shard algebra (ParseShardID/Encode/MatchAccountID/MatchBlockID, shardChild/shardParent, convertShardIdent) is executed symbolically for ALL 2^64 shard ids and all account prefixes and compared with loop-written prefix references.  User-friendly form (real base64 codec, utils.Crc16 on output, snksoft/crc XMODEM on input): a fixed account with every value of the last address byte (thorough: every int8 workchain) and the flag combination testnet+non-bounceable (thorough: every combination, symbolic) round-trips; the 48-character text with the character at position p replaced by ANY other base64url digit is rejected; raw text and JSON forms (ToRaw / AccountIDFromRaw / ParseAccountID / MarshalJSON / UnmarshalJSON) round-trip for every workchain of at most 5 decimal digits of both signs, short raw forms are zero-filled on the left, and the ADNL base32 text (liteclient.ADNLAddressToBase32 / ParseADNLAddress, real base32 codec and CRC16) round-trips for every value of one symbolic byte near the end of the address, with and without the .adnl suffix (quick: 8 positions incl. both ends and the checksum characters; thorough: all 48).',
    level_note='Full 64-bit domain for the shard algebra (no bound other than the types).',
    bounds={'shard ids': 'all 2^64', 'accounts': 'all 256-bit addresses (first 8 bytes are the ones read)'},
    outside_claim=['user-friendly form for arbitrary 256-bit addresses (the CRC16 of 34 symbolic bytes through two different implementations is out of reach: the account part is fixed except one byte)', 'the + / alphabet on input', 'raw text form for workchains of more than 5 decimal digits', 'ADNL base32 form of arbitrary 256-bit addresses (one symbolic byte per instance)'],
)
