# C17 — account addresses and shard ids keep their meaning across all forms
def instances(tier):
    T = 'ton'
    out = [(T, 'VH_C17_shard_roundtrip', [], {}), (T, 'VH_C17_shard_match_account', [], {}), (T, 'VH_C17_shard_match_block', [], {}),
           (T, 'VH_C17_shard_family', [], {}), (T, 'VH_C17_shard_parent_child', [], {}), (T, 'VH_C17_convertShardIdent', [], {}),
           (T, 'VH_C17_account_tl', [], {}), (T, 'VH_C17_account_tlb', [], {})]
    for d in ([1, 8, 30] if tier == 'quick' else list(range(1, 31))):
        out.append((T, 'VH_C17_anycast', [d], {}))
    return out


CHECK = dict(
    id='C17', pkgs=['ton'], init_pkgs=['std:io'], instances=instances, opts={'budget_s': 1200},
    level_text='TL form (LE32 workchain + 32 raw bytes) and TL-B form (ToMsgAddress / AccountIDFromTlb, anycast rewrite for the stated depths) of AccountID round-trip for all addresses and workchains; shard algebra (ParseShardID/Encode/MatchAccountID/MatchBlockID, shardChild/shardParent, convertShardIdent) is executed symbolically for ALL 2^64 shard ids and all account prefixes and compared with loop-written prefix references.',
    level_note='Full 64-bit domain for the shard algebra (no bound other than the types).',
    bounds={'shard ids': 'all 2^64', 'accounts': 'all 256-bit addresses (first 8 bytes are the ones read)'},
    outside_claim=['user-friendly base64 form and its CRC16 (whole-stream CRC reasoning did not fit the session: not built)', 'raw text / JSON form (decimal text of symbolic integers)', 'ADNL base32 form'],
)
