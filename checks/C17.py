# C17 — account addresses and shard ids keep their meaning across all forms
def instances(tier):
    T = 'ton'
    out = [(T, 'VH_C17_shard_roundtrip', [], {}), (T, 'VH_C17_shard_match_account', [], {}), (T, 'VH_C17_shard_match_block', [], {}),
           (T, 'VH_C17_shard_family', [], {}), (T, 'VH_C17_shard_parent_child', [], {}), (T, 'VH_C17_convertShardIdent', [], {})]
    return out


CHECK = dict(
    id='C17', pkgs=['ton'], init_pkgs=[], instances=instances, opts={'budget_s': 1200},
    level_text='Shard algebra (ParseShardID/Encode/MatchAccountID/MatchBlockID, shardChild/shardParent, convertShardIdent) is executed symbolically for ALL 2^64 shard ids and all account prefixes and compared with loop-written prefix references.',
    level_note='Full 64-bit domain for the shard algebra (no bound other than the types).',
    bounds={'shard ids': 'all 2^64', 'accounts': 'all 256-bit addresses (first 8 bytes are the ones read)'},
    outside_claim=[],
)
