# C06 — bit-string and cell primitives behave like an ideal bit list
def instances(tier):
    B = 'boc'
    out = []
    nb = 16 if tier == 'quick' else 16
    widths = list(range(0, 65)) if tier == 'thorough' else [0, 1, 7, 8, 9, 13, 16, 31, 32, 33, 48, 55, 56, 57, 58, 59, 63, 64]
    wnb = 8 if tier == 'quick' else 12
    wwidths = widths if tier == 'thorough' else [0, 1, 7, 8, 9, 33, 63, 64]
    for n in widths:
        out.append((B, 'VH_C06_ReadUint', [n, nb], {'weight': 3}))
        if n >= 1:
            out.append((B, 'VH_C06_ReadInt', [n, nb], {'weight': 3}))
    for n in wwidths:
        out.append((B, 'VH_C06_WriteUint', [n, wnb], {'weight': 10 + n}))
        if n >= 1:
            out.append((B, 'VH_C06_WriteInt', [n, wnb], {'weight': 10 + n}))
    for n in ([0, 8, 56, 57, 64] if tier == 'quick' else widths):
        out.append((B, 'VH_C06_PickUint', [n, nb], {}))
    out.append((B, 'VH_C06_ReadBit_ReadByte', [nb], {}))
    for k in ([0, 1, 3] if tier == 'quick' else [0, 1, 2, 3, 4, 8]):
        out.append((B, 'VH_C06_ReadBytes', [k, nb], {}))
        out.append((B, 'VH_C06_WriteBytes', [k, wnb], {'weight': 8 * k}))
    for n in ([0, 1, 5, 8, 12, 16] if tier == 'quick' else list(range(0, 41))):
        out.append((B, 'VH_C06_ReadBits', [n, nb], {}))
    out.append((B, 'VH_C06_Skip', [nb], {}))
    out.append((B, 'VH_C06_ReadUnary', [8 if tier == 'quick' else 12], {}))
    out.append((B, 'VH_C06_WriteUnary', [12], {}))
    out.append((B, 'VH_C06_WriteBit', [nb], {}))
    out.append((B, 'VH_C06_minBitsRequired', [], {}))
    out.append((B, 'VH_C06_LimUint', [8], {}))
    for n in ([0, 9] if tier == 'quick' else [0, 1, 8, 9, 17]):
        out.append((B, 'VH_C06_refs_cursor', [n], {'weight': 50 * (n + 1)}))
    return out


CHECK = dict(
    id='C06',
    level_text='Each BitString/Cell primitive is executed symbolically from an ARBITRARY valid state (all buffer contents, capacities, lengths, cursors within the byte bound) and compared with an ideal-bit-list reference; z3 decides every assertion and every Go run-time check for all those states. One-step refinement + induction covers operation sequences.  Reference slots and cursor (AddRef, NextRef, RefsAvailableForRead, CopyRemaining, ResetCounters) for a cell with a symbolic number of references 0..4, a symbolic number of them already read and a symbolic bit position: slot order, refusal of a fifth reference, CopyRemaining = unread bits + unread references with the source cursors untouched.',
    level_note='Bounded: buffer of 16 bytes (128 bits), widths as listed in evidence.bounds; trusted base: ssa2json, the symgo interpreter (validated per run against native Go on solver-chosen inputs), z3.', pkgs=['boc'], init_pkgs=['std:io', 'boc'], instances=instances,
    opts={'budget_s': 2400, 'vc_timeout': 400},
    bounds={'quick': {'buffer_bytes': 16, 'state': 'arbitrary (buf, cap, len, rCursor) with 0<=rCursor<=len<=cap<=8*len(buf)'},
            'thorough': {'buffer_bytes': 16}},
    lifted_by='induction on the operation sequence: each operation is checked from an arbitrary state satisfying the representation invariant (DESIGN 6)',
    outside_claim=['Print/BinaryString', 'negative widths', 'buffers longer than the stated byte bound'],
)
