# C08 — TL-B and TL decoders are total on untrusted input
def instances(tier):
    out = []
    T, L, B = 'tlb', 'liteclient', 'boc'
    shapes = [(24, 0, 0), (12, 1, 16), (6, 2, 12)] if tier == 'quick' else [(16, 0, 0), (24, 0, 0), (40, 0, 0), (64, 0, 0), (12, 1, 16), (24, 1, 24), (6, 2, 12), (16, 2, 16)]
    for typ in ('MsgAddress', 'CurrencyCollection', 'StateInit', 'Message', 'HashmapE', 'VmStack', 'Text', 'SnakeData'):
        for (nb, nr, cb) in shapes:
            if typ in ('StateInit', 'Message') and nr > 0 and tier == 'quick':
                continue
            out.append((T, f'VH_C08_tlb_{typ}', [nb, nr, cb], {'weight': nb + 20 * nr}))
    for (cb, rt) in ([(2, 0), (36, 0), (36, 3)] if tier == 'quick' else [(k, t) for k in (0, 1, 2, 34, 36, 68, 70, 102) for t in (0, 1, 2, 3, 4)]):
        out.append((B, 'VH_C08_cell_hash_total', [cb, rt], {'weight': 50}))
    tl = {'AccountId': [0, 4, 36, 40], 'SendMessageRequest': [0, 1, 4, 8, 12], 'BlockTransactions': [0, 80, 96, 100],
          'RunMethodResult': [0, 4, 88, 168], 'BlockLink': [0, 4, 24, 92]}
    for typ, Ls in tl.items():
        for n in Ls:
            out.append((L, f'VH_C08_tl_{typ}', [n], {'weight': n + 1}))
    if tier == 'thorough':
        out.append((L, 'VH_C08_tl_BlockLink', [180], {'weight': 500}))
        out.append((L, 'VH_C08_tl_RunMethodResult', [176], {'weight': 500}))
    out.append((L, 'VH_C08_tl_marshal_modes', [], {}))
    for k in range(0, 7):
        out.append((L, 'VH_C12_decodeLength_total', [k], {}))
    for n in ([0, 1] if tier == 'quick' else [0, 1, 2]):
        for P in ([0, 36, 37, 38, 40, 41] if tier == 'quick' else [0, 4, 36, 37, 38, 39, 40, 41, 44, 48]):
            out.append((L, 'VH_C12_processAnswer', [n, P], {'weight': n * P + 1}))
    for Lb in ([11, 12, 13] if tier == 'quick' else [6, 11, 12, 13, 14, 15]):
        out.append(('code', 'VH_C08_code_methods', [Lb], {'weight': 2 ** (Lb - 8)}))
        out.append((T, 'VH_C08_vmstack_tl', [Lb], {'weight': 2 ** (Lb - 8)}))
    out.append(('liteapi', 'VH_C08_get_transactions', [], {'weight': 200}))
    return out


CHECK = dict(
    id='C08', pkgs=['tlb', 'liteclient', 'boc', 'code', 'liteapi'],
    gen=[('harness/gen/gen_c08_liteapi.py', 'liteapi', 'gen_c08_liteapi.go')], init_pkgs=['std:io', 'std:unicode/utf8', 'boc', 'tlb', 'liteapi'], instances=instances, opts={'budget_s': 600, 'unwind': 400},
    level_text='tlb.Unmarshal into MsgAddress, CurrencyCollection, StateInit, Message, HashmapE, VmStack, Text, SnakeData on ARBITRARY small cell trees (all root bits symbolic, 0..2 children with symbolic bits and symbolic cell type incl. pruned/library/Merkle), Cell.Hash on arbitrary (ill-formed) two-cell trees with any type/mask/length, tl.Unmarshal of representative generated lite-server types on ARBITRARY byte strings, MarshalTL with arbitrary mode bits, decodeLength/processQueryAnswer on arbitrary payloads: every Go run-time check is a VC, every allocation is bounded by the input size plus a constant, loops are bounded.  Helpers on network data: code.ParseContractMethods and tlb.VmStack.UnmarshalTL on every byte string of 11..13 bytes that starts with the generic bag-of-cells magic (1-byte indices/offsets family), liteapi.Client.GetTransactions on an answer with 0..2 block ids next to a bag holding one well-formed transaction (the network call below it is stubbed through the build overlay): a value or an error, every Go run-time check is a VC.',
    level_note='Bounds: tree shapes and byte lengths in evidence.bounds. decodeAccountDataFromProof needs a live pool and is outside this check; abi decoders are not covered.',
    bounds={'tlb shapes (root bits, children, child bits)': 'see instances', 'tl byte lengths': 'see instances'},
    outside_claim=['decodeAccountDataFromProof', 'abi message decoders', 'code.ParseContractMethods / VmStack.UnmarshalTL beyond 13 input bytes (the bag-of-cells parser itself is C07)', 'time/space beyond the VC bounds', 'input sizes beyond the bounds'],
)
