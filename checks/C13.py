# C13 — pool picks a healthy, current server; waits never hang
def instances(tier):
    P = 'liteapi/pool'
    out = []
    for n in ([1, 2, 3] if tier == 'quick' else [1, 2, 3, 4]):
        for bp in (0, 1):
            out.append((P, 'VH_C13_select', [n, bp], {'weight': n}))
    out.append((P, 'VH_C13_set_master_head', [3 if tier == 'quick' else 5], {'weight': 5}))
    for w in (0, 1):
        out.append((P, 'VH_C13_wait_calls', [w], {'weight': 5}))
    for steps in [1, 2, 3, 4]:   # 5 steps: did not finish within 15 min (single path explosion), not registered
        out.append((P, 'VH_C13_waitlist', [steps], {'weight': 10 ** steps}))
    return out


CHECK = dict(
    id='C13', pkgs=['liteapi/pool'], init_pkgs=[], instances=instances, opts={'budget_s': 1200},
    level_text='updateBest/findBestPingConnection/findFirstWorkingConnection executed symbolically through the conn interface for pools of 1..4 connections with ALL values of (alive, seqno uint32, rtt int64) and any previous choice; the selection specification is asserted.  connection.SetMasterHead for any sequence of 3 (thorough: 5) reported heads: stored head = largest seqno so far, one notification per strict increase, in order.  WaitMasterchainSeqno and BestMasterchainClient themselves (select executed case by case; timers never fire inside the explored call): success at once when the best head already reaches the target / is initialised, an error when the context is cancelled first, and the waiter is unsubscribed on every return.  Wait list: all histories of up to 4 critical-section steps over two waiters (arrive with any target seqno / best connection reports any newer head / waiter receives / waiter decides to leave on timeout, cancellation or success / its deferred unsubscribe runs) on the real New, subscribe, unsubscribe, notifySubscribers: no step blocks forever while the pool lock is held (blocking channel operations are VCs), a waiter whose target was reported finds a head >= target in its channel, fast-path subscribers get the head at once, and a leaving caller never removes another registration.',
    level_note='Interleavings are explored at the granularity of the critical sections (every wait-list operation runs under the pool mutex, a waiter\'s only unlocked actions are receive and leave); select is modelled sequentially (every ready case is explored, default only when none is ready); a send to a full channel whose owner still receives is treated as a transient wait (the owner is scheduled first), one whose owner has left as blocking forever.  Real timers, the Run loops and goroutine scheduling inside the runtime are not modelled.',
    bounds={'quick': {'connections': '1..3', 'wait-list steps': '1..4', 'waiters': 2}, 'thorough': {'connections': '1..4', 'wait-list steps': '1..4', 'waiters': 2}},
    outside_claim=['the timeout arm of WaitMasterchainSeqno (time.After never fires in the model)', 'Run, InitializeConnections, connection.Run', 'more than 2 concurrent waiters, histories longer than the bound', 'real timing / latency'],
)
