# C13 — pool picks a healthy, current server; waits never hang
def instances(tier):
    P = 'liteapi/pool'
    out = []
    for n in ([1, 2, 3] if tier == 'quick' else [1, 2, 3, 4]):
        for bp in (0, 1):
            out.append((P, 'VH_C13_select', [n, bp], {'weight': n}))
    return out


CHECK = dict(
    id='C13', pkgs=['liteapi/pool'], init_pkgs=[], instances=instances, opts={'budget_s': 1200},
    level_text='updateBest/findBestPingConnection/findFirstWorkingConnection executed symbolically through the conn interface for pools of 1..4 connections with ALL values of (alive, seqno uint32, rtt int64) and any previous choice; the selection specification is asserted.',
    level_note='sequential code under the pool mutex only; goroutine schedules, select-based waits and timers are not modelled (see outside_claim).',
    bounds={'quick': {'connections': '1..3'}, 'thorough': {'connections': '1..4'}},
    outside_claim=['WaitMasterchainSeqno/BestMasterchainClient (select)', 'Run, InitializeConnections', 'real timing'],
)
