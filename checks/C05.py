# C05 — dictionaries preserve their key->value mapping
def lenbits(m):
    return m.bit_length()


def instances(tier):
    T = 'tlb'
    out = []
    ms = [1, 2, 3, 7, 8, 9, 15, 16] if tier == 'quick' else list(range(1, 33))
    for m in ms:
        out.append((T, 'VH_C05_label_roundtrip', [m], {'weight': m}))
        lb = lenbits(m)
        # every cell length up to "longest valid label + 2" for each form
        for total in range(0, 2 + m + 3):           # short: 1 + (m+1) + m bits at most
            if total <= 2 * m + 2:
                out.append((T, 'VH_C05_loadLabel_vs_spec', [m, 0, total], {'weight': total}))
        for total in range(1, 2 + lb + m + 2):
            out.append((T, 'VH_C05_loadLabel_vs_spec', [m, 1, total], {'weight': total}))
        for total in range(1, 3 + lb + 2):
            out.append((T, 'VH_C05_loadLabel_vs_spec', [m, 2, total], {'weight': total}))
    # wide keys: the same-bit form (no data bits) and short long-form labels
    for m in ([65, 72] if tier == 'quick' else [64, 65, 72, 80, 96, 128]):
        lb = lenbits(m)
        out.append((T, 'VH_C05_loadLabel_vs_spec', [m, 2, 3 + lb], {'weight': m}))
        out.append((T, 'VH_C05_loadLabel_vs_spec', [m, 1, 2 + lb + 3], {'weight': 10}))
    for cp in ([0, 3, 7] if tier == 'quick' else list(range(0, 8))):
        out.append((T, 'VH_C05_dict_int8', [cp], {'weight': 400}))
    for cp in ([0, 3, 7] if tier == 'quick' else list(range(0, 8))):
        out.append((T, 'VH_C05_hashmap_aug', [cp], {'weight': 50}))
    for (a, b) in ([(0, 3), (5, 2), (6, 7), (2, 5)] if tier == 'quick' else [(a, b) for a in range(8) for b in range(8) if a != b]):
        out.append((T, 'VH_C05_dict_three', [a, b], {'weight': 100}))
    return out


CHECK = dict(
    id='C05', pkgs=['tlb'], init_pkgs=['std:io', 'boc', 'tlb'], instances=instances, opts={'budget_s': 2400, 'unwind': 1100, 'hash_injective': True},
    level_text='Label codec of Hashmap edges: loadLabel/loadLabelSize are executed on ARBITRARY cell bits and compared with a specification parser of HmLabel (short, long, same) on (length, bits, bits consumed, rejection); encodeLabel+loadLabel round trip for every pair of keys of the stated widths including the 7/8-bit short/long boundary; dictionary round trip HashmapE[Int8,Uint8] with two symbolic keys of any signs through Put (both insertion orders), Marshal, Unmarshal: same pairs, ascending key-bit order, Get agrees, identical cell for both insertion orders.  Dictionary level: two signed 8-bit keys (all values, both insertion orders) and three unsigned 8-bit keys (tree shape fixed per instance by the common-prefix lengths of neighbouring keys, two insertion orders) are built with the real Put/Marshal, give the same cell hash whatever the order, and decode to exactly the pairs in ascending key-bit order with agreeing Get (present and absent keys); an augmented dictionary written by hand from block.tlb (ahm_edge / ahmn_fork / ahmn_leaf, long labels, two keys with a symbolic common prefix) decodes to its keys, values and tree of extras.',
    level_note='Bounds: remaining key size m in evidence.bounds, every cell length up to the longest valid label + 2; wide keys only for the same-bit form. Dictionary-level round trip (Put/Marshal/Unmarshal) needs the reflection codec: see DESIGN for status.',
    bounds={'quick': {'m': [1, 2, 3, 7, 8, 9, 15, 16], 'wide m (same form)': [65, 72]}, 'thorough': {'m': '1..32', 'wide m': [64, 65, 72, 80, 96, 128]}},
    outside_claim=['more than 3 entries', 'byte-string and address keys at dictionary level', 'HashmapAug* encoders (not implemented in the library)', '512-bit keys except the same-bit label form'],
)
