# C15 — wallet address and send parameters follow from key, version and chain state
V = {'V3R1': 5, 'V3R2': 6, 'V4R1': 8, 'V4R2': 9, 'V5Beta': 10, 'V5R1': 11, 'HighLoadV2R2': 16}


def instances(tier):
    W = 'wallet'
    out = []
    for name, ver in V.items():
        out.append((W, 'VH_C15_address', [ver], {'weight': 50}))
        if name != 'HighLoadV2R2':
            for status in (0, 1, 2):
                out.append((W, 'VH_C15_nextparams', [ver, status], {'weight': 10}))
    for name in (['V3R2'] if tier == 'quick' else ['V3R2', 'V4R2', 'V5R1']):
        out.append((W, 'VH_C15_confirm', [V[name]], {'weight': 1000, 'concrete_clock': True}))
    return out


CHECK = dict(
    id='C15', pkgs=['wallet'], init_pkgs=['std:io', 'std:encoding/base64', 'boc', 'tlb', 'wallet'], instances=instances,
    opts={'budget_s': 2400, 'hash_injective': True},
    level_text='For V3R1..V5R1 and HighLoadV2R2, all keys, workchains in int8, sub-wallet ids and network ids (symbolic): the address from wallet.New().GetAddress, GenerateWalletAddress and hash(GenerateStateInit) is the representation hash of the state-init cell built from the specification (published code cell of the version + data cell with zero seqno, ids, key, empty dictionaries); different key / sub-wallet id gives a different address (ideal hash); NextMessageParams returns the stored seqno and no init for an active account (all uint32 seqnos) and seqno 0 plus the own initial state for non-existent / uninitialised accounts; RawSendV2 with confirmation against scripted, symbolic GetSeqno answers returns success exactly when some poll reports, without error, a larger seqno.',
    level_note='SHA-256 / Ed25519 ideal. The confirmation loop is run with a deterministic clock (each reading 1 ms after the previous plus the time slept), so the number of polls is fixed (about 10) while the answers stay symbolic; a symbolic clock did not finish. seed.go (mnemonics, PBKDF2) and frozen accounts are not covered.',
    bounds={'versions': list(V.keys()), 'polls': 'about 10 (2 s window, 200 ms sleeps)'},
    outside_claim=['wallet/seed.go (PBKDF2/HMAC over a word list)', 'frozen accounts', 'SendV2 (Sendable conversion)', 'V1/V2 wallets', 'arbitrary clock behaviour during confirmation'],
)
