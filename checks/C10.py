# C10 — lite-server bindings speak exactly lite_api.tl
import os, subprocess, sys, tempfile
VERIF = os.path.dirname(os.path.dirname(os.path.abspath(__file__)))
REPO = os.environ.get('VERIF_REPO', '/repo')


def listing():
    with tempfile.NamedTemporaryFile(suffix='.go') as tf:
        r = subprocess.run([sys.executable, f'{VERIF}/harness/gen/gen_tl_calls.py', REPO, tf.name], capture_output=True, text=True)
    out = []
    for line in r.stdout.split('\n'):
        p = line.split()
        if len(p) == 5 and p[0] in ('type', 'req', 'call'):
            out.append((p[0], p[1], int(p[2]), int(p[3]), int(p[4])))
    return out


def instances(tier):
    L = 'liteclient'
    out = []
    for kind, gt, nbytes, nvec, nopt in listing():
        if kind == 'call':
            for bl in ([0, 3] if nbytes else [0]):
                for vl in ([0, 1] if nvec else [0]):
                    out.append((L, f'VH_C10_call_{gt}', [bl, vl, -1 if nopt <= 6 else 0], {'weight': 5 + nbytes * bl + 20 * vl}))
            continue
        bls = [0]
        if nbytes:
            bls = [0, 3, 254] if tier == 'quick' else [0, 1, 2, 3, 4, 253, 254, 255, 256]
        vls = [0]
        if nvec:
            vls = [0, 2] if tier == 'quick' else [0, 1, 2]
        for bl in bls:
            for vl in vls:
                out.append((L, f'VH_C10_{kind}_{gt}', [bl, vl, -1], {'weight': 1 + nbytes * bl + 20 * vl}))
    for wrong in (0, 79):
        out.append(('ton', 'VH_C10_block_id_ext', [wrong], {'weight': 5}))
    return out


CHECK = dict(
    id='C10', pkgs=['liteclient', 'ton'], init_pkgs=['std:io', 'liteclient'], instances=instances, opts={'budget_s': 1500, 'unwind': 1200},
    gen=[('harness/gen/gen_tl_calls.py', 'liteclient', 'gen_tl.go')],
    level_text='For EVERY declaration and function of the checked-in lite_api.tl a harness is generated from the schema text: a value of the generated Go type with symbolic fields (all mode-bit combinations, byte strings of the stated lengths incl. the 253/254 boundary, vectors of 0..2 items, both constructors of unions) and, independently, the byte layout the schema prescribes (LE32/LE64, raw int256, Bool ids, length-prefixed zero-padded bytes, LE32 vector count, optional iff mode bit, LE32 constructor id for boxed values). MarshalTL must equal that layout byte for byte, UnmarshalTL of the layout must give the value back and consume everything, and LiteapiRequestDecoder(function id + layout) must return the request; every generated request method (*Client).LiteServer* is run against a stub transport (liteServerRequest replaced through the build overlay): the bytes handed to the transport are function id + schema layout of the request, and any value of the result type laid out per schema comes back as that value; the hand-written TL form of ton.BlockIDExt is the 80-byte layout of tonNode.blockIdExt for every value, inverts, and refuses other lengths.',
    level_note='The specification serialiser is emitted by harness/gen/gen_tl.py from the schema (it shares no code with package tl). Not decided: the textual identity "checked-in file == generator output".',
    bounds={'quick': {'byte string lengths': [0, 3, 254], 'vector lengths': [0, 2]}, 'thorough': {'byte string lengths': [0, 1, 2, 3, 4, 253, 254, 255, 256], 'vector lengths': [0, 1, 2]}},
    outside_claim=['byte strings >= 2^24', 'the transport below liteServerRequest, lite-server error answers', 'generator output == checked-in file (textual)', 'tlb/integers.go generator pair (see C03)'],
)
