# C03 — TL-B values survive encode/decode
import re, os
REPO = os.environ.get('VERIF_REPO', '/repo')


def int_types():
    src = open(f'{REPO}/tlb/integers.go').read()
    return [(k + n, int(n)) for k, n, _ in re.findall(r'^type (Uint|Int)(\d+) (u?int\d+)$', src, re.M)]


def instances(tier):
    T = 'tlb'
    out = []
    pres = [0, 7] if tier == 'quick' else [0, 1, 2, 3, 4, 5, 6, 7, 13]
    for name, n in int_types():
        for pre in pres:
            out.append((T, f'VH_C03_int_{name}', [pre], {'weight': n}))
    src = open(f'{REPO}/tlb/integers.go').read()
    for k, n in re.findall(r'^type (Uint|Int)(\d+) big\.Int$', src, re.M):
        for pre in ([0, 3] if tier == 'quick' else [0, 1, 3, 5, 7]):
            out.append((T, f'VH_C03_big_{k}{n}', [pre], {'weight': 40}))
    Ns = sorted(int(n) for n in re.findall(r'^type VarUInteger(\d+) big\.Int$', src, re.M))
    for N in Ns:
        if tier == 'quick' and N not in (1, 2, 3, 4, 7, 8, 9, 15, 16, 17, 31, 32):
            continue
        for nb in range(0, N):
            for pre in ([0] if tier == 'quick' else [0, 5]):
                out.append((T, f'VH_C03_var_VarUInteger{N}', [nb, pre], {'weight': nb + 1}))
    for (k, L, d) in ([(0, 0, 0), (1, 0, 0), (1, 9, 0), (2, 0, 0), (2, 0, 1), (2, 0, 30), (3, 7, 0), (3, 9, 5), (3, 256, 0)] if tier == 'quick' else
                      [(0, 0, 0)] + [(1, L, 0) for L in (0, 1, 7, 8, 9, 255, 511)] + [(2, 0, d) for d in (0, 1, 2, 7, 8, 29, 30)] +
                      [(3, L, d) for L in (0, 1, 7, 8, 9, 255, 256, 511) for d in (0, 5, 30)]):
        out.append((T, 'VH_C03_MsgAddress', [k, L, d], {'weight': 20 + L // 8}))
    for (k, i, b, vb) in [(0, 1, 1, 8), (1, 2, 0, 0), (2, 0, 1, 0)]:
        out.append((T, 'VH_C16_Message', [k, i, b, vb], {'weight': 30}))
    for h in ('VH_C03_TickTock', 'VH_C03_ShardIdent', 'VH_C03_combinators', 'VH_C03_Grams', 'VH_C03_SignedCoins', 'VH_C03_plain_kinds'):
        out.append((T, h, [], {'weight': 60}))
    for n in ([0, 1, 3] if tier == 'quick' else [0, 1, 2, 3, 4]):
        out.append((T, 'VH_C03_vmstack', [n], {'weight': 20 + 10 * n}))
    for nr in ([2, 4] if tier == 'quick' else [0, 1, 2, 3, 4]):
        out.append((T, 'VH_C03_vmcellslice', [nr], {'weight': 30}))
    for (n, pre) in ([(0, 0), (1, 7), (127, 5), (128, 0), (130, 1022)] if tier == 'quick' else [(0, 0), (1, 7), (2, 1016), (127, 0), (127, 5), (127, 8), (128, 0), (130, 1022), (256, 3), (300, 0)]):
        out.append((T, 'VH_C03_bytes_snake', [n, pre], {'weight': 20 + n}))
    return out


CHECK = dict(
    id='C03', pkgs=['tlb'], init_pkgs=['std:io', 'boc', 'tlb'], instances=instances, opts={'budget_s': 900},
    gen=[('harness/gen/gen_ints.py', 'tlb', 'gen_ints.go'), ('harness/gen/gen_bigints.py', 'tlb', 'gen_bigints.go')],
    level_text='Every generated fixed-width integer type (harness generated from the current tlb/integers.go) is encoded and decoded symbolically over its ENTIRE n-bit domain at several bit offsets, with arbitrary neighbouring bits: round trip, exact consumption, identical re-encoding.  Bytes/SnakeData (hand-written snake codec): n symbolic bytes written into a cell already holding `pre` bits are laid out as tail/cons of the schema (first 1023-pre bits in the root, continuation cells of at most 1023 bits in a chain of single references) and decode back to the same bytes.  VM stacks of 0..3 tiny ints: Marshal lays the list out top-first in the chain of rest references exactly as vm_stack / vm_stk_cons prescribe, Unmarshal lists the entries bottom-first (the documented convention).  vm_stk_slice records (VmCellSlice): every valid bit window and reference window over a cell with 2 or 4 (quick) / 0..4 (thorough) references encodes to one reference plus 10+10+3+3 bits as the schema prescribes and decodes to the same window over the same cell.',
    level_note='work in progress: big integers, hand-written codecs and reflection-driven structs follow',
    bounds={'quick': {'types': 'all UintN/IntN in tlb/integers.go', 'bit offsets': [0, 7]}, 'thorough': {'bit offsets': [0, 1, 2, 3, 4, 5, 6, 7, 13]}},
    outside_claim=['abi generated bodies', 'types needing encoding/json or cgo'],
)
