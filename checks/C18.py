# C18 — generated Merkle proofs commit to the original tree and reveal the value
def instances(tier):
    T = 'tlb'
    out = [(T, 'VH_C18_prove', [1, 0, 0], {'weight': 10})]
    cps = [0, 7] if tier == 'quick' else list(range(0, 8))
    for cp in cps:
        for j in (0, 1):
            out.append((T, 'VH_C18_prove', [2, j, cp], {'weight': 500}))
    out.append((T, 'VH_C18_prove_uint12', [1, 0], {'weight': 20}))
    return out


CHECK = dict(
    id='C18', pkgs=['tlb'], init_pkgs=['std:io', 'boc', 'tlb'], instances=instances, opts={'budget_s': 3000, 'hash_injective': True, 'vc_timeout': 400},
    level_text='A dictionary with 8-bit keys and 1..2 symbolic distinct keys and values is built with the real Put/Marshal; ProveKeyInHashmap for a present key returns the value and a BOC that parses to one Merkle-proof root whose data is 03 | hash | depth of the original root; an independent level-0 hasher written in the harness (pruned branches contribute their stored hash/depth) gives exactly the original root hash and depth for the pruned tree; the value decodes from the proof; an absent key yields an error.  12-bit keys (width not a multiple of 8), one entry: the present key is proved with its value and every absent key, including one differing only in the last 4 bits, is refused.',
    level_note='SHA-256 ideal (injective). The tree shape of the two-key instances is fixed per instance by the number of common leading key bits (all 8 shapes in the thorough tier, 2 in quick). Generic prune sets through the cursor API, wider keys and more than two entries are outside the bound.',
    bounds={'quick': {'entries': '1..2', 'key bits': 8, 'common-prefix lengths': [0, 7]}, 'thorough': {'entries': '1..2', 'common-prefix lengths': '0..7'}},
    outside_claim=['dictionaries with more than 2 entries; keys other than 8 bits (2 entries) and 12 bits (1 entry; the 2-entry 12-bit instances did not finish in 15 min)', 'arbitrary prune sets through Cursor', 'Merkle proofs/updates as input to pruning', 'real SHA-256'],
)
