#!/bin/sh
# build the SSA dumper from the module cache (offline)
set -e
HERE=$(cd "$(dirname "$0")/.." && pwd)
export GOFLAGS=-mod=mod GOPROXY=off GOSUMDB=off GOTOOLCHAIN=local
cd "$HERE/tools/ssa2json" && go build -o "$HERE/bin/ssa2json" .
echo "ssa2json built"
